// Deterministic-simulation core shared by all engines (plain C++17, independent of GUDHI).
//
// One integer decides everything: (VERIF_SEED, property, run index) -> subseed -> Plan. A Plan is generated completely
// before execution and is the only input of execute(); execution never draws randomness except through seeds that are
// fields of the plan. A replay file is the plan as text.
#pragma once
#include <cstdint>
#include <cstdio>
#include <cstdlib>
#include <cstring>
#include <map>
#include <set>
#include <unordered_set>
#include <string>
#include <vector>
#include <sstream>
#include <stdexcept>
#include <functional>
#include <algorithm>

namespace sim {

// ---------------------------------------------------------------- randomness
inline uint64_t splitmix(uint64_t& s) {
  uint64_t z = (s += 0x9e3779b97f4a7c15ull);
  z = (z ^ (z >> 30)) * 0xbf58476d1ce4e5b9ull;
  z = (z ^ (z >> 27)) * 0x94d049bb133111ebull;
  return z ^ (z >> 31);
}
inline uint64_t mix(uint64_t a, uint64_t b) {
  uint64_t s = a ^ (b * 0x9e3779b97f4a7c15ull + 0x7f4a7c15ull);
  splitmix(s);
  return splitmix(s);
}
inline uint64_t hash_str(const std::string& s, uint64_t h = 1469598103934665603ull) {
  for (unsigned char c : s) { h ^= c; h *= 1099511628211ull; }
  return h;
}
struct Rng {
  uint64_t s;
  explicit Rng(uint64_t seed = 1) : s(seed) {}
  uint64_t next() { return splitmix(s); }
  // uniform in [0,n)
  long below(long n) { return n <= 0 ? 0 : (long)(next() % (uint64_t)n); }
  long range(long lo, long hi) { return lo + below(hi - lo + 1); }  // inclusive
  bool chance(int num, int den) { return below(den) < num; }
  template <class V> const typename V::value_type& pick(const V& v) { return v[below((long)v.size())]; }
  template <class V> void shuffle(V& v) { for (long i = (long)v.size() - 1; i > 0; --i) std::swap(v[i], v[below(i + 1)]); }
  Rng fork(uint64_t tag) { return Rng(mix(next(), tag)); }
  // result_type interface, so that <random>/<algorithm> can use it too
  typedef uint64_t result_type;
  static constexpr uint64_t min() { return 0; }
  static constexpr uint64_t max() { return ~0ull; }
  uint64_t operator()() { return next(); }
};

// ---------------------------------------------------------------- hashing of event logs
struct Hasher {
  uint64_t h = 0xcbf29ce484222325ull;
  void add(uint64_t x) { h = mix(h, x); }
  void add(const std::string& s) { h = mix(h, hash_str(s)); }
};

// ---------------------------------------------------------------- plans
struct Op {
  int client = 0;
  std::string name;
  std::vector<long> a;
  long arg(size_t i, long dflt = 0) const { return i < a.size() ? a[i] : dflt; }
};
struct Plan {
  std::string property, engine;
  uint64_t seed = 1, run = 0, subseed = 0;
  std::vector<std::pair<std::string, std::string>> kv;  // ordered header fields ("set k v")
  std::vector<Op> ops;
  std::string expect;  // free text: "class=<..> hash=<..>" written by the driver
  std::string get(const std::string& k, const std::string& d = "") const {
    for (auto& p : kv) if (p.first == k) return p.second;
    return d;
  }
  long geti(const std::string& k, long d = 0) const { auto s = get(k); return s.empty() ? d : atol(s.c_str()); }
  void set(const std::string& k, const std::string& v) {
    for (auto& p : kv) if (p.first == k) { p.second = v; return; }
    kv.emplace_back(k, v);
  }
  void seti(const std::string& k, long v) { set(k, std::to_string(v)); }
  void add(int client, const std::string& name, std::initializer_list<long> args = {}) { ops.push_back(Op{client, name, std::vector<long>(args)}); }
  void add(int client, const std::string& name, const std::vector<long>& args) { ops.push_back(Op{client, name, args}); }
  std::string to_text() const {
    std::ostringstream o;
    o << "# verif-plan v1\nproperty " << property << "\nengine " << engine << "\nseed " << seed << "\nrun " << run << "\nsubseed " << subseed << "\n";
    for (auto& p : kv) o << "set " << p.first << " " << p.second << "\n";
    for (auto& op : ops) { o << "op " << op.client << " " << op.name; for (long x : op.a) o << " " << x; o << "\n"; }
    if (!expect.empty()) o << "expect " << expect << "\n";
    return o.str();
  }
  static Plan parse(const std::string& text) {
    Plan p; std::istringstream in(text); std::string line;
    while (std::getline(in, line)) {
      if (line.empty() || line[0] == '#') continue;
      std::istringstream l(line); std::string w; l >> w;
      if (w == "property") l >> p.property; else if (w == "engine") l >> p.engine;
      else if (w == "seed") l >> p.seed; else if (w == "run") l >> p.run; else if (w == "subseed") l >> p.subseed;
      else if (w == "set") { std::string k, v; l >> k; std::getline(l, v); size_t i = v.find_first_not_of(' '); p.kv.emplace_back(k, i == std::string::npos ? "" : v.substr(i)); }
      else if (w == "op") { Op op; l >> op.client >> op.name; long x; while (l >> x) op.a.push_back(x); p.ops.push_back(op); }
      else if (w == "expect") { std::getline(l, p.expect); size_t i = p.expect.find_first_not_of(' '); if (i != std::string::npos) p.expect = p.expect.substr(i); }
    }
    return p;
  }
};

// ---------------------------------------------------------------- failures, statistics
struct Failure {
  std::string cls;     // <engine>/<oracle id>/<op kind>
  std::string detail;  // human readable first difference
  int step;
};

struct Stats {
  std::map<std::string, long> c;
  std::unordered_set<uint64_t> states;          // distinct model states (hashes)
  std::unordered_set<uint64_t> interleavings;   // distinct client-id sequences
  std::set<std::string> kf_hit;                 // known-finding fences that matched
  long steps = 0;
};
Stats& stats();
// known-finding ids that are listed in known_findings.jsonl (passed by the driver with --kf); a fence is active only if listed
std::set<std::string>& active_kf();

struct Run {
  const Plan& plan;
  std::string engine;
  Hasher ev;         // event log hash: ops, returned values, oracle digests (no addresses, no time)
  Hasher traj;       // hash of the sequence of model states, for "distinct" counting
  int step = -1;
  std::string opkind = "init";
  bool mutated = false, audited = false;
  explicit Run(const Plan& p) : plan(p), engine(p.engine) {}
  void begin_op(int i, const Op& op) {
    step = i; opkind = op.name; ev.add(op.name); for (long x : op.a) ev.add((uint64_t)x);
    stats().c["op." + op.name]++; stats().steps++;
  }
  void skipped() { stats().c["skipped." + opkind]++; ev.add("skipped"); }
  void state(uint64_t h) { traj.add(h); stats().states.insert(h); }
  void count(const std::string& k, long n = 1) { stats().c[k] += n; }
  void log(uint64_t x) { ev.add(x); }
  void log(const std::string& s) { ev.add(s); }
  [[noreturn]] void fail(const std::string& oracle, const std::string& detail) const {
    throw Failure{engine + "/" + oracle + "/" + opkind, detail, step};
  }
  // Known-finding fence: returns true (and records the hit) iff the finding is listed in known_findings.jsonl.
  bool kf(const std::string& id) { if (!active_kf().count(id)) return false; stats().kf_hit.insert(id); stats().c["kf." + id]++; return true; }
};
#define SIM_REQUIRE(run, cond, oracle, detail) do { if (!(cond)) (run).fail((oracle), (detail)); } while (0)

// ---------------------------------------------------------------- tiers
struct Tier { std::string name = "quick"; bool thorough() const { return name == "thorough"; } };

// ---------------------------------------------------------------- the engine interface (each harness binary defines these)
struct Engine {
  const char* name;
  // properties this engine serves
  std::vector<std::string> properties;
  std::function<Plan(const std::string& property, uint64_t subseed, const Tier&)> generate;
  std::function<void(const Plan&, Run&)> execute;
  // optional: list of configurations compiled in, real/stub component inventory
  std::vector<std::string> configurations;
};
Engine make_engine();  // defined by the harness

int harness_main(int argc, char** argv);  // defined in core.cpp

// small helpers
inline std::string join(const std::vector<int>& v, const char* sep = ",") { std::string s; for (size_t i = 0; i < v.size(); ++i) { if (i) s += sep; s += std::to_string(v[i]); } return s; }
inline std::vector<int> split_ints(const std::string& s) { std::vector<int> r; std::istringstream in(s); std::string t; while (std::getline(in, t, ',')) if (!t.empty()) r.push_back(atoi(t.c_str())); return r; }

}  // namespace sim
