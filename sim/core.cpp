// Worker side of the simulator: run loop, replay, crash containment, statistics. See core.h.
#include "core.h"
#include <csignal>
#include <unistd.h>
#include <sys/syscall.h>
#include <sys/time.h>
#include <fcntl.h>
#include <chrono>
#include <ctime>
#include <exception>
#include <fstream>
#include <iostream>

#if defined(__SANITIZE_ADDRESS__) || defined(__SANITIZE_THREAD__)
#define SIM_HAVE_SANITIZER 1
#elif defined(__has_feature)
#if __has_feature(address_sanitizer) || __has_feature(thread_sanitizer)
#define SIM_HAVE_SANITIZER 1
#endif
#endif
#ifdef SIM_HAVE_SANITIZER
extern "C" void __sanitizer_set_death_callback(void (*)(void));
#endif

// Sanitizer defaults: a report is a violation of the run in which it occurs (exit code 77), leaks are ignored.
extern "C" __attribute__((used, visibility("default"))) const char* __asan_default_options() {
  return "exitcode=77:detect_leaks=0:allocator_may_return_null=1:abort_on_error=0:handle_abort=0:detect_stack_use_after_return=0";
}
extern "C" __attribute__((used, visibility("default"))) const char* __ubsan_default_options() {
  return "print_stacktrace=1:halt_on_error=1:abort_on_error=1";  // abort -> SIGABRT -> on_signal (gcc's libubsan has its own Die(), the ASan death callback is not called)
}
extern "C" __attribute__((used, visibility("default"))) const char* __tsan_default_options() {
  return "exitcode=77:halt_on_error=1:report_signal_unsafe=0";
}

namespace sim { namespace { extern volatile sig_atomic_t g_tsan_report; } }
// called by ThreadSanitizer for every report (weak hook of the runtime); the report itself goes to stderr
extern "C" __attribute__((used, visibility("default"))) void __tsan_on_report(void*) { sim::g_tsan_report = 1; }

namespace sim {

Stats& stats() { static Stats s; return s; }
std::set<std::string>& active_kf() { static std::set<std::string> s; return s; }

namespace {
// state needed by the crash paths (kept in plain globals, written before each run)
char g_plan_path[512];
std::string g_plan_text;
long g_cur_run = -1;
const Run* g_cur = nullptr;
const char* g_engine = "?";
bool g_replay = false;
volatile sig_atomic_t g_dying = 0;

void dump_and_report(const char* oracle) {
  if (g_dying) return;
  g_dying = 1;
  char cls[256];
  snprintf(cls, sizeof cls, "%s/%s/%s", g_engine, oracle, g_cur ? g_cur->opkind.c_str() : "init");
  if (g_replay) {
    char buf[512]; int n = snprintf(buf, sizeof buf, "RESULT fail class=%s step=%d detail=crash\n", cls, g_cur ? g_cur->step : -1);
    (void)!write(1, buf, n);
    return;
  }
  fflush(stdout);  // not async-signal-safe, but the process is dying: keeps the END lines and makes the CRASH line start a line
  int fd = open(g_plan_path, O_WRONLY | O_CREAT | O_TRUNC, 0644);
  if (fd >= 0) { (void)!write(fd, g_plan_text.data(), g_plan_text.size()); close(fd); }
  char buf[1024];
  int n = snprintf(buf, sizeof buf, "CRASH %ld class=%s plan=%s step=%d\n", g_cur_run, cls, g_plan_path, g_cur ? g_cur->step : -1);
  (void)!write(1, buf, n);
}
volatile sig_atomic_t g_tsan_report = 0;
// ThreadSanitizer intercepts _exit and takes its thread-registry lock there, which a dying reporter may already hold: leave through the raw system call
[[noreturn]] void hard_exit(int code) { syscall(SYS_exit_group, code); __builtin_unreachable(); }
void on_sanitizer_death() { dump_and_report(g_tsan_report ? "race" : "memory"); }
void on_signal(int sig) {
  dump_and_report(sig == SIGPROF ? "hang" : sig == SIGABRT ? "abort" : "memory");
  hard_exit(sig == SIGPROF ? 78 : 77);
}
void on_terminate() {
  const char* what = "terminate";
  try { auto e = std::current_exception(); if (e) std::rethrow_exception(e); } catch (const std::exception& ex) { what = ex.what(); } catch (...) {}
  fprintf(stderr, "std::terminate: %s\n", what);
  dump_and_report("terminate");
  hard_exit(77);
}

std::string read_file(const std::string& p) { std::ifstream f(p); std::stringstream s; s << f.rdbuf(); return s.str(); }

std::string json_escape(const std::string& s) {
  std::string o;
  for (char c : s) { if (c == '"' || c == '\\') { o += '\\'; o += c; } else if (c == '\n') o += "\\n"; else if ((unsigned char)c < 32) o += ' '; else o += c; }
  return o;
}
std::string oneline(std::string s) { for (auto& c : s) if (c == '\n' || c == '\r') c = ' '; if (s.size() > 600) s = s.substr(0, 600) + "..."; return s; }

// per-run watchdog in CPU time of this process (robust against a loaded machine): a run that does not finish is a violation of class hang
void watchdog(long s) { struct itimerval t; memset(&t, 0, sizeof t); t.it_value.tv_sec = s; setitimer(ITIMER_PROF, &t, nullptr); }
struct Outcome { bool ok; Failure f; uint64_t ev, traj; bool nontrivial; };
Outcome run_plan(const Engine& e, const Plan& p) {
  Run r(p);
  g_cur = &r;
  Outcome o{true, {}, 0, 0, false};
  {
    Hasher il; for (auto& op : p.ops) il.add((uint64_t)op.client);
    stats().interleavings.insert(il.h);
  }
  try {
    watchdog(p.geti("watchdog_s", 20));
    e.execute(p, r);
    watchdog(0);
  } catch (const Failure& f) {
    watchdog(0); o.ok = false; o.f = f;
  } catch (const std::exception& ex) {
    watchdog(0); o.ok = false; o.f = Failure{r.engine + "/exception/" + r.opkind, std::string("unexpected exception: ") + ex.what(), r.step};
  }
  o.ev = r.ev.h; o.traj = mix(r.traj.h, hash_str(p.get("config")));
  o.nontrivial = r.mutated && r.audited;
  g_cur = nullptr;
  return o;
}
}  // namespace

int harness_main(int argc, char** argv) {
  Engine e = make_engine();
  g_engine = e.name;
  std::map<std::string, std::string> a;
  std::string mode = argc > 1 ? argv[1] : "help";
  for (int i = 2; i + 1 < argc; i += 2) a[argv[i]] = argv[i + 1];
  auto get = [&](const char* k, const char* d) { auto it = a.find(k); return it == a.end() ? std::string(d) : it->second; };
  {
    std::istringstream in(get("--kf", "")); std::string t;
    while (std::getline(in, t, ',')) if (!t.empty()) active_kf().insert(t);
  }
  std::set_terminate(on_terminate);
#ifdef SIM_HAVE_SANITIZER
  __sanitizer_set_death_callback(on_sanitizer_death);
#endif
  signal(SIGPROF, on_signal);
  signal(SIGABRT, on_signal);
#if !defined(__SANITIZE_ADDRESS__)
  signal(SIGSEGV, on_signal); signal(SIGBUS, on_signal); signal(SIGFPE, on_signal);
#endif
  Tier tier; tier.name = get("--tier", "quick");

  if (mode == "info") {
    printf("engine %s\nproperties", e.name); for (auto& p : e.properties) printf(" %s", p.c_str());
    printf("\nconfigurations"); for (auto& c : e.configurations) printf(" %s", c.c_str()); printf("\n");
    return 0;
  }
  if (mode == "gen") {
    std::string prop = get("--property", e.properties[0].c_str());
    uint64_t seed = strtoull(get("--seed", "1").c_str(), 0, 10), run = strtoull(get("--run", "0").c_str(), 0, 10);
    uint64_t sub = mix(mix(seed, hash_str(prop)), run);
    Plan p = e.generate(prop, sub, tier); p.property = prop; p.engine = e.name; p.seed = seed; p.run = run; p.subseed = sub;
    fputs(p.to_text().c_str(), stdout);
    return 0;
  }
  if (mode == "replay") {
    g_replay = true;
    std::string path = get("--plan", "");
    Plan p = Plan::parse(read_file(path));
    if (p.engine != e.name) { printf("RESULT error wrong-engine plan=%s harness=%s\n", p.engine.c_str(), e.name); return 3; }
    g_cur_run = (long)p.run;
    Outcome o = run_plan(e, p);
    if (o.ok) { printf("RESULT ok hash=%016llx\n", (unsigned long long)o.ev); return 0; }
    printf("RESULT fail class=%s step=%d hash=%016llx detail=%s\n", o.f.cls.c_str(), o.f.step, (unsigned long long)o.ev, oneline(o.f.detail).c_str());
    return 1;
  }
  if (mode == "run") {
    std::string prop = get("--property", e.properties[0].c_str());
    uint64_t seed = strtoull(get("--seed", "1").c_str(), 0, 10);
    long start = atol(get("--start", "0").c_str()), count = atol(get("--count", "100").c_str());
    long stride = atol(get("--stride", "1").c_str()), offset = atol(get("--offset", "0").c_str());
    double seconds = atof(get("--seconds", "1e9").c_str());
    long max_fail = atol(get("--max-fail", "4").c_str());
    std::string outdir = get("--outdir", "/tmp");
    long samples_wanted = atol(get("--samples", "0").c_str());
    auto t0 = std::chrono::steady_clock::now();
    long done = 0, fails = 0, last = -1, max_ms_run = -1; double max_ms = 0;
    bool timed_out = false;
    // runs start, start+1, ... start+count-1; this worker takes those with (r-start) % stride == offset
    for (long r = start + offset; r < start + count; r += stride) {
      if (std::chrono::duration<double>(std::chrono::steady_clock::now() - t0).count() > seconds) { timed_out = true; break; }
      uint64_t sub = mix(mix(seed, hash_str(prop)), (uint64_t)r);
      Plan p = e.generate(prop, sub, tier); p.property = prop; p.engine = e.name; p.seed = seed; p.run = (uint64_t)r; p.subseed = sub;
      g_cur_run = r;
      snprintf(g_plan_path, sizeof g_plan_path, "%s/cand-%s-%llu-%ld.plan", outdir.c_str(), prop.c_str(), (unsigned long long)seed, r);
      g_plan_text = p.to_text();
      if (done < samples_wanted) {
        char sp[600]; snprintf(sp, sizeof sp, "%s/sample-%s-%ld.plan", outdir.c_str(), prop.c_str(), r);
        std::ofstream(sp) << g_plan_text;
      }
      clock_t c0 = clock();
      Outcome o = run_plan(e, p);
      double ms = 1000.0 * (double)(clock() - c0) / CLOCKS_PER_SEC; if (ms > max_ms) { max_ms = ms; max_ms_run = r; }
      ++done; last = r;
      if (o.ok) {
        printf("END %ld %016llx %016llx %d\n", r, (unsigned long long)o.ev, (unsigned long long)o.traj, o.nontrivial ? 1 : 0);
      } else {
        std::ofstream(g_plan_path) << g_plan_text;
        printf("FAIL %ld class=%s plan=%s step=%d hash=%016llx detail=%s\n", r, o.f.cls.c_str(), g_plan_path, o.f.step, (unsigned long long)o.ev, oneline(o.f.detail).c_str());
        fflush(stdout);
        if (++fails >= max_fail) break;
      }
    }
    // statistics for the evidence file
    std::ostringstream js;
    js << "{\"done\":" << done << ",\"last\":" << last << ",\"fails\":" << fails << ",\"timed_out\":" << (timed_out ? "true" : "false")
       << ",\"max_run_cpu_ms\":" << (long)max_ms << ",\"max_run_cpu_ms_run\":" << max_ms_run << ",\"steps\":" << stats().steps << ",\"distinct_states\":" << stats().states.size() << ",\"distinct_interleavings\":" << stats().interleavings.size() << ",\"counters\":{";
    bool first = true;
    for (auto& kv : stats().c) { js << (first ? "" : ",") << "\"" << json_escape(kv.first) << "\":" << kv.second; first = false; }
    js << "},\"kf\":[";
    first = true;
    for (auto& k : stats().kf_hit) { js << (first ? "" : ",") << "\"" << json_escape(k) << "\""; first = false; }
    js << "]}";
    printf("STATS %s\n", js.str().c_str());
    // dump state hashes so the driver can count the union over workers
    {
      char sp[600]; snprintf(sp, sizeof sp, "%s/states-%s-%ld.bin", outdir.c_str(), prop.c_str(), offset);
      FILE* f = fopen(sp, "wb");
      if (f) { for (uint64_t h : stats().states) fwrite(&h, 8, 1, f); fclose(f); }
      snprintf(sp, sizeof sp, "%s/interleavings-%s-%ld.bin", outdir.c_str(), prop.c_str(), offset);
      f = fopen(sp, "wb");
      if (f) { for (uint64_t h : stats().interleavings) fwrite(&h, 8, 1, f); fclose(f); }
    }
    fflush(stdout);
    return 0;
  }
  fprintf(stderr, "usage: %s info | gen --property P --seed S --run R | replay --plan FILE [--kf ids] | run --property P --seed S --start A --count N --stride K --offset W --outdir D [--tier T] [--kf ids]\n", argv[0]);
  return 2;
}

}  // namespace sim

int main(int argc, char** argv) { return sim::harness_main(argc, argv); }
