# Builds the harness binaries against the GUDHI tree in $(REPO) (default /repo). Objects carry -MMD dependency files, so a
# change to any GUDHI header recompiles exactly the translation units that include it.
REPO ?= /repo
BUILD ?= /verif/build
CXX ?= g++
GUARD = -DGUDHI_VERIF_SIM
SAN = -fsanitize=address,undefined -fno-sanitize-recover=undefined
CXXFLAGS_COMMON = -std=c++17 -O1 -g1 -DNDEBUG $(GUARD) -MMD -MP -w
INC = -I/verif/shim $(foreach d,common Simplex_tree Persistence_matrix Zigzag_persistence Toplex_map Skeleton_blocker Rips_complex Bitmap_cubical_complex Persistent_cohomology,-I$(REPO)/src/$(d)/include)
LDFLAGS_ASAN = $(SAN)

ENGINES_SIMPLE = toplex skbl
all: $(foreach e,$(ENGINES_SIMPLE),$(BUILD)/$(e)) $(BUILD)/st_hist $(BUILD)/pm_base $(BUILD)/pm_hist $(BUILD)/zz_hist $(BUILD)/own $(BUILD)/thr

$(BUILD)/core.o: /verif/sim/core.cpp /verif/sim/core.h
	@mkdir -p $(BUILD)
	$(CXX) $(CXXFLAGS_COMMON) $(SAN) -c $< -o $@

$(BUILD)/%.o: /verif/engines/%.cpp
	@mkdir -p $(BUILD)
	$(CXX) $(CXXFLAGS_COMMON) $(SAN) $(INC) -c $< -o $@

$(foreach e,$(ENGINES_SIMPLE),$(BUILD)/$(e)): $(BUILD)/%: $(BUILD)/%.o $(BUILD)/core.o
	$(CXX) $(LDFLAGS_ASAN) $^ -o $@

# st_hist: one object per Simplex_tree option set; 0..6 with GUDHI_USE_TBB + the sort shim, 7..8 sequential sort path
ST_CFGS_TBB = 0 1 2 3 4 5 6
ST_CFGS_SEQ = 7 8
$(foreach k,$(ST_CFGS_TBB),$(BUILD)/st_cfg_$(k).o): $(BUILD)/st_cfg_%.o: /verif/engines/st_cfg.cpp
	@mkdir -p $(BUILD)
	$(CXX) $(CXXFLAGS_COMMON) $(SAN) $(INC) -DGUDHI_USE_TBB -DST_CFG=$* -c $< -o $@
$(foreach k,$(ST_CFGS_SEQ),$(BUILD)/st_cfg_$(k).o): $(BUILD)/st_cfg_%.o: /verif/engines/st_cfg.cpp
	@mkdir -p $(BUILD)
	$(CXX) $(CXXFLAGS_COMMON) $(SAN) $(INC) -DST_CFG=$* -c $< -o $@
$(BUILD)/st_hist: $(BUILD)/st_hist.o $(BUILD)/core.o $(foreach k,$(ST_CFGS_TBB) $(ST_CFGS_SEQ),$(BUILD)/st_cfg_$(k).o)
	$(CXX) $(LDFLAGS_ASAN) $^ -o $@

# pm_base: one object per (option family 1..11, column-type group 0..2)
PMB_OBJS = $(foreach f,1 2 3 4 5 6 7 8 9 10 11,$(foreach g,0 1 2,$(BUILD)/pm_base_cfg_$(f)_$(g).o))
define PMB_RULE
$(BUILD)/pm_base_cfg_$(1)_$(2).o: /verif/engines/pm_base_cfg.cpp
	@mkdir -p $(BUILD)
	$(CXX) $(CXXFLAGS_COMMON) $(SAN) $(INC) -DPMB_FAMILY=$(1) -DPMB_GROUP=$(2) -c $$< -o $$@
endef
$(foreach f,1 2 3 4 5 6 7 8 9 10 11,$(foreach g,0 1 2,$(eval $(call PMB_RULE,$(f),$(g)))))
$(BUILD)/pm_base: $(BUILD)/pm_base.o $(BUILD)/core.o $(PMB_OBJS)
	$(CXX) $(LDFLAGS_ASAN) $^ -o $@

# pm_hist: a few configurations per translation unit
PMH_TUS = 0 1 2 3 4 5 6 7 8 9 10 11 12 13 14 15 16 17 18 19 20 21 22
$(foreach k,$(PMH_TUS),$(BUILD)/pm_hist_cfg_$(k).o): $(BUILD)/pm_hist_cfg_%.o: /verif/engines/pm_hist_cfg.cpp
	@mkdir -p $(BUILD)
	$(CXX) $(CXXFLAGS_COMMON) $(SAN) $(INC) -DPMH_TU=$* -c $< -o $@
$(BUILD)/pm_hist: $(BUILD)/pm_hist.o $(BUILD)/core.o $(foreach k,$(PMH_TUS),$(BUILD)/pm_hist_cfg_$(k).o)
	$(CXX) $(LDFLAGS_ASAN) $^ -o $@

# zz_hist
ZZ_TUS = 0 1 2 3 4
$(foreach k,$(ZZ_TUS),$(BUILD)/zz_cfg_$(k).o): $(BUILD)/zz_cfg_%.o: /verif/engines/zz_cfg.cpp
	@mkdir -p $(BUILD)
	$(CXX) $(CXXFLAGS_COMMON) $(SAN) $(INC) -DZZ_TU=$* -c $< -o $@
$(BUILD)/zz_hist: $(BUILD)/zz_hist.o $(BUILD)/core.o $(foreach k,$(ZZ_TUS),$(BUILD)/zz_cfg_$(k).o)
	$(CXX) $(LDFLAGS_ASAN) $^ -o $@

# own (C15)
OWN_TUS = 0 1 2 3 4 5 6 7 8
$(foreach k,$(OWN_TUS),$(BUILD)/own_cfg_$(k).o): $(BUILD)/own_cfg_%.o: /verif/engines/own_cfg.cpp
	@mkdir -p $(BUILD)
	$(CXX) $(CXXFLAGS_COMMON) $(SAN) $(INC) -DGUDHI_USE_TBB -DOWN_TU=$* -c $< -o $@
$(BUILD)/own: $(BUILD)/own.o $(BUILD)/core.o $(foreach k,$(OWN_TUS),$(BUILD)/own_cfg_$(k).o)
	$(CXX) $(LDFLAGS_ASAN) $^ -o $@

# thr (C15, thread clause): clang + ThreadSanitizer, sequential sort path, real threads released one at a time by the plan
CLANGXX ?= clang++
TSAN = -fsanitize=thread
$(BUILD)/core_tsan.o: /verif/sim/core.cpp /verif/sim/core.h
	@mkdir -p $(BUILD)
	$(CLANGXX) $(CXXFLAGS_COMMON) $(TSAN) -c $< -o $@
$(BUILD)/thr_tsan.o: /verif/engines/thr.cpp
	@mkdir -p $(BUILD)
	$(CLANGXX) $(CXXFLAGS_COMMON) $(TSAN) $(INC) -c $< -o $@
$(BUILD)/thr: $(BUILD)/thr_tsan.o $(BUILD)/core_tsan.o
	$(CLANGXX) $(TSAN) -Wl,--wrap=_Znwm,--wrap=_Znam $^ -o $@ -lpthread

-include $(wildcard $(BUILD)/*.d)
.SECONDARY:
