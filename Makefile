# Builds the harness binaries against the GUDHI tree in $(REPO) (default /repo). Objects carry -MMD dependency files, so a
# change to any GUDHI header recompiles exactly the translation units that include it.
REPO ?= /repo
BUILD ?= /verif/build
CXX ?= g++
GUARD = -DGUDHI_VERIF_SIM
SAN = -fsanitize=address,undefined -fno-sanitize-recover=undefined
CXXFLAGS_COMMON = -std=c++17 -O1 -g1 -DNDEBUG $(GUARD) -MMD -MP -w
INC = -I/verif/shim $(foreach d,common Simplex_tree Persistence_matrix Zigzag_persistence Toplex_map Skeleton_blocker Rips_complex Bitmap_cubical_complex Persistent_cohomology,-I$(REPO)/src/$(d)/include)
LDFLAGS_ASAN = $(SAN)

ENGINES_SIMPLE = toplex skbl
all: $(foreach e,$(ENGINES_SIMPLE),$(BUILD)/$(e)) $(BUILD)/st_hist

$(BUILD)/core.o: /verif/sim/core.cpp /verif/sim/core.h
	@mkdir -p $(BUILD)
	$(CXX) $(CXXFLAGS_COMMON) $(SAN) -c $< -o $@

$(BUILD)/%.o: /verif/engines/%.cpp
	@mkdir -p $(BUILD)
	$(CXX) $(CXXFLAGS_COMMON) $(SAN) $(INC) -c $< -o $@

$(foreach e,$(ENGINES_SIMPLE),$(BUILD)/$(e)): $(BUILD)/%: $(BUILD)/%.o $(BUILD)/core.o
	$(CXX) $(LDFLAGS_ASAN) $^ -o $@

# st_hist: one object per Simplex_tree option set; 0..6 with GUDHI_USE_TBB + the sort shim, 7..8 sequential sort path
ST_CFGS_TBB = 0 1 2 3 4 5 6
ST_CFGS_SEQ = 7 8
$(foreach k,$(ST_CFGS_TBB),$(BUILD)/st_cfg_$(k).o): $(BUILD)/st_cfg_%.o: /verif/engines/st_cfg.cpp
	@mkdir -p $(BUILD)
	$(CXX) $(CXXFLAGS_COMMON) $(SAN) $(INC) -DGUDHI_USE_TBB -DST_CFG=$* -c $< -o $@
$(foreach k,$(ST_CFGS_SEQ),$(BUILD)/st_cfg_$(k).o): $(BUILD)/st_cfg_%.o: /verif/engines/st_cfg.cpp
	@mkdir -p $(BUILD)
	$(CXX) $(CXXFLAGS_COMMON) $(SAN) $(INC) -DST_CFG=$* -c $< -o $@
$(BUILD)/st_hist: $(BUILD)/st_hist.o $(BUILD)/core.o $(foreach k,$(ST_CFGS_TBB) $(ST_CFGS_SEQ),$(BUILD)/st_cfg_$(k).o)
	$(CXX) $(LDFLAGS_ASAN) $^ -o $@

-include $(wildcard $(BUILD)/*.d)
.SECONDARY:
