# Builds the harness binaries against the GUDHI tree in $(REPO) (default /repo). Objects carry -MMD dependency files, so a
# change to any GUDHI header recompiles exactly the translation units that include it.
REPO ?= /repo
BUILD ?= /verif/build
CXX ?= g++
GUARD = -DGUDHI_VERIF_SIM
SAN = -fsanitize=address,undefined -fno-sanitize-recover=undefined
CXXFLAGS_COMMON = -std=c++17 -O1 -g1 -DNDEBUG $(GUARD) -MMD -MP -w
INC = -I/verif/shim $(foreach d,common Simplex_tree Persistence_matrix Zigzag_persistence Toplex_map Skeleton_blocker Rips_complex Bitmap_cubical_complex Persistent_cohomology,-I$(REPO)/src/$(d)/include)
LDFLAGS_ASAN = $(SAN)

ENGINES_SIMPLE = toplex skbl
all: $(foreach e,$(ENGINES_SIMPLE),$(BUILD)/$(e))

$(BUILD)/core.o: /verif/sim/core.cpp /verif/sim/core.h
	@mkdir -p $(BUILD)
	$(CXX) $(CXXFLAGS_COMMON) $(SAN) -c $< -o $@

$(BUILD)/%.o: /verif/engines/%.cpp
	@mkdir -p $(BUILD)
	$(CXX) $(CXXFLAGS_COMMON) $(SAN) $(INC) -c $< -o $@

$(foreach e,$(ENGINES_SIMPLE),$(BUILD)/$(e)): $(BUILD)/%: $(BUILD)/%.o $(BUILD)/core.o
	$(CXX) $(LDFLAGS_ASAN) $^ -o $@

-include $(wildcard $(BUILD)/*.d)
.SECONDARY:
