"""Static registry: which engine serves which property, tier sizes, evidence texts."""

ENGINES = {
    'skbl': {'name': 'skbl', 'binary': 'skbl', 'kind': 'seeded edit/contraction histories on Skeleton_blocker_complex, refinement against M1, blockers = minimal non-faces, homotopy invariants', 'configurations': ['Skeleton_blocker_complex<Skeleton_blocker_simple_traits>']},
    'toplex': {'name': 'toplex', 'binary': 'toplex', 'kind': 'seeded client histories on Toplex_map and Lazy_toplex_map in lock-step, refinement against the abstract-complex model M1 after every step', 'configurations': ['Toplex_map + Lazy_toplex_map (lock-step)']},
}

COMMON_ASSUME = [
    'the reference model (a brute-force abstract complex / dense matrix / linear-algebra kernel under /verif/models) is the specification',
    'documented preconditions and caller duties of the API are respected by the generators (listed per property in DESIGN.md section 4)',
    'seeded search: a clean batch is evidence, not proof; universes are tiny by construction',
]

PROPS = {
    'C17': {
        'engine': 'skbl',
        'level_text': 'seeded search over edit histories (add_vertex, add_edge with and without blockers, add_simplex, remove_star of vertices/edges/simplices through every overload, contract_edge with and without the link condition, start from the simplex-list constructor) with a full audit after every few operations: contains() of every vertex set, complex_simplex_range, counts per dimension, connected components, link_condition, blocker_range = exactly the minimal non-faces of dimension >= 2, Euler characteristic; Betti numbers across contractions under the link condition. Failures are gated, minimised and replayable. Evidence, not proof (<= 8 vertices).',
        'level_note': 'trusted: model M1 + Z_2 rank computation in /verif/models; histories only (no schedule or fault exists for this class); one known finding is fenced narrowly (known_findings.txt C17-KF1)',
        'technique': 'deterministic simulation: seeded client histories + reference-model refinement (history dimension only)',
        'runs': {'quick': 20000, 'thorough': 400000},
        'rule': 'one evaluation = one plan (clients editor/eraser/contractor/auditor interleaved, <= 60 ops on <= 8 vertices; start from isolated vertices, from the simplex-list constructor or by add_vertex) executed on Skeleton_blocker_complex against model M1 after every op; non-trivial = at least one mutating op and one full audit; distinct = distinct hash of the sequence of model states',
        'real': ['gudhi/Skeleton_blocker.h and sub-headers', 'boost::graph adjacency_list'],
        'stub': ['none'],
        'probes_expected': ['probe.contract_with_link_condition', 'probe.contract_without_link_condition', 'probe.add_simplex_with_blockers_present', 'probe.remove_star_dim0', 'probe.remove_star_dim1', 'probe.remove_star_dim2', 'probe.init_from_list'],
        'assumptions': COMMON_ASSUME,
    },
    'C16': {
        'engine': 'toplex',
        'level_text': 'seeded search over operation histories (insert / remove maximal, non-maximal and absent simplices / remove vertex / contraction incl. absent vertices / independent insertion, bursts that cross the lazy cleaning bounds, labels above 2^32) with a full membership, maximality, maximal_simplices, maximal_cofaces and count audit against a brute-force abstract complex after every few operations, reads in seeded order (lazy reads mutate); failures are gated (fresh-process replay twice, same class and event-log hash), minimised (ddmin) and written as replay files. Evidence, not proof: universes of at most 8 labels.',
        'level_note': 'trusted: model M1 in /verif/models/complex.h, g++ 12 with ASan+UBSan; histories and lazy-cleaning points only (no schedule or I/O fault exists for this class)',
        'technique': 'deterministic simulation: seeded client histories + reference-model refinement (history dimension only)',
        'runs': {'quick': 20000, 'thorough': 400000},
        'rule': 'one evaluation = one plan (clients grower/eraser/contractor/auditor interleaved, <= 70 ops on <= 8 vertex labels) executed on Toplex_map and Lazy_toplex_map in lock-step against model M1 after every op; non-trivial = at least one mutating op executed and at least one full audit; distinct = distinct hash of the sequence of model states of the run',
        'real': ['gudhi/Toplex_map.h', 'gudhi/Lazy_toplex_map.h', 'boost::heap::fibonacci_heap', 'libstdc++ unordered containers'],
        'stub': ['none (callers are simulated clients; the lazy cleaning is triggered through the public API by bursts of insertions)'],
        'probes_expected': ['probe.remove_nonmaximal', 'probe.remove_absent', 'probe.contract_absent', 'probe.eager_lazy_renamed'],
        'assumptions': COMMON_ASSUME,
    },
}

HOOK_COMMITS = []

NOT_APPLICABLE = {
 'C02': 'batch function of (complex, field, min length, flag): no state a history could reach, no schedule, no I/O, no fault at its interface; its one scheduled ingredient (the filtration sort) is decided under C03. Deciding it means input generation against an independent reduction, which is not deterministic simulation.',
 'C10': 'stateless pure arithmetic on (p, a, b, c): no history, schedule, I/O or fault; the right tool is exhaustive/boundary enumeration, not simulation.',
 'C11': 'one batch call mapping (matrix, threshold, dim, p) to a stream of intervals; no mutable object outlives the call, nothing is scheduled, no fault can be injected at its interface; differential input generation is outside this technique family.',
 'C12': 'batch function of the edge list; the property (persistence preserved for all graphs) is quantified over inputs only and would be decided by input generation with a persistence oracle, not by simulation.',
 'C13': 'immutable after construction, pure index arithmetic over a finite configuration space (shapes x periodic masks) to enumerate, not to simulate; its only scheduled ingredient (the cell sort) is exercised by the sort seam of C03.',
 'C14': 'single batch passes over their input with no state observable between calls and no fault at the iterator interface; agreement with generic cubical persistence over all value patterns is exhaustive enumeration of weak orders, not simulation.',
 'C18': 'value types with pure constructors and pure arithmetic; a landscape is fully determined by its diagram (no history-dependent state), no schedule; file helpers are not part of the property.',
 'C19': 'batch construction from a point set, decided by geometry over inputs; nothing to schedule or to fail.',
 'C20': 'immutable combinatorial/geometric pure functions of (triangulation, simplex, point); no history, schedule or fault.',
}
_P = 'simulation target (DESIGN.md section 4) whose engine is not finished yet; not claimed until its check is quiet on the unchanged tree for the right reasons'
PLANNED = {k: _P for k in ['C01', 'C03', 'C04', 'C05', 'C06', 'C07', 'C08', 'C09', 'C15', 'C16', 'C17']}
