"""Static registry: which engine serves which property, tier sizes, evidence texts."""

ENGINES = {
    'toplex': {'name': 'toplex', 'binary': 'toplex', 'configurations': ['Toplex_map + Lazy_toplex_map (lock-step)']},
}

COMMON_ASSUME = [
    'the reference model (a brute-force abstract complex / dense matrix / linear-algebra kernel under /verif/models) is the specification',
    'documented preconditions and caller duties of the API are respected by the generators (listed per property in DESIGN.md section 4)',
    'seeded search: a clean batch is evidence, not proof; universes are tiny by construction',
]

PROPS = {
    'C16': {
        'engine': 'toplex',
        'runs': {'quick': 20000, 'thorough': 400000},
        'rule': 'one evaluation = one plan (clients grower/eraser/contractor/auditor interleaved, <= 70 ops on <= 8 vertex labels) executed on Toplex_map and Lazy_toplex_map in lock-step against model M1 after every op; non-trivial = at least one mutating op executed and at least one full audit; distinct = distinct hash of the sequence of model states of the run',
        'real': ['gudhi/Toplex_map.h', 'gudhi/Lazy_toplex_map.h', 'boost::heap::fibonacci_heap', 'libstdc++ unordered containers'],
        'stub': ['none (callers are simulated clients; the lazy cleaning is triggered through the public API by bursts of insertions)'],
        'probes_expected': ['probe.remove_nonmaximal', 'probe.remove_absent', 'probe.contract_absent', 'probe.eager_lazy_renamed'],
        'assumptions': COMMON_ASSUME,
    },
}
