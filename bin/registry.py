"""Static registry: which engine serves which property, tier sizes, evidence texts."""

ENGINES = {
    'pm_base': {'name': 'pm_base', 'binary': 'pm_base', 'source': 'pm_base.cpp (+ pm_base_cfg.cpp, pm_base_impl.h)',
                'kind': 'seeded operation histories on general-purpose Matrix<Options> for 9 option families x column types in lock-step; dense Z_p model with row permutation and classes of identical columns',
                'configurations': ['9 option families (field, row access kind, removable rows, map/vector container, swaps, compression) x up to 9 column types: see evidence']},
    'st_hist': {'name': 'st_hist', 'binary': 'st_hist', 'source': 'st_hist.cpp (+ st_cfg.cpp, st_impl.h, st_common.h)',
                'kind': 'seeded client histories on Simplex_tree under 7 option sets (+2 sequential-sort builds) in lock-step; environment seams: sort schedule (tbb::parallel_sort shim), adversarial user graph, vertex-range order/duplicates, blocker oracle, edge delivery order; refinement against M1',
                'configurations': ['default', 'full_featured', 'fast_persistence', 'minimal', 'fast_cofaces', 'stable', 'stable_fast_cofaces', 'default_seq (no TBB)', 'full_featured_seq (no TBB)']},
    'skbl': {'name': 'skbl', 'binary': 'skbl', 'kind': 'seeded edit/contraction histories on Skeleton_blocker_complex, refinement against M1, blockers = minimal non-faces, homotopy invariants', 'configurations': ['Skeleton_blocker_complex<Skeleton_blocker_simple_traits>']},
    'toplex': {'name': 'toplex', 'binary': 'toplex', 'kind': 'seeded client histories on Toplex_map and Lazy_toplex_map in lock-step, refinement against the abstract-complex model M1 after every step', 'configurations': ['Toplex_map + Lazy_toplex_map (lock-step)']},
}

COMMON_ASSUME = [
    'the reference model (a brute-force abstract complex / dense matrix / linear-algebra kernel under /verif/models) is the specification',
    'documented preconditions and caller duties of the API are respected by the generators (listed per property in DESIGN.md section 4)',
    'seeded search: a clean batch is evidence, not proof; universes are tiny by construction',
]

PROPS = {
    'C09': {
        'engine': 'pm_base',
        'runs': {'quick': 8000, 'thorough': 200000},
        'level_text': 'seeded search over operation histories on general-purpose matrices: insert_column (empty, singleton, dense), insert_column at a freed index, remove_column / remove_last, add_to, multiply_target_and_add_to, multiply_source_and_add_to with sources inside the matrix or given as an entry range of another matrix, coefficients drawn from {0, 1, p-1, p, negative, > p, random}, empty sources and targets, zero_entry of present and absent entries, zero_column, swap_columns, swap_rows (lazy), erase_empty_row; a plan is executed on every column type of its option family in lock-step (9 families: Z_2 / Z_p with p in {3,5,7,11,13,251}, row access off / intrusive / set, removable rows, vector / map container, swaps, compression) and audited against the dense model in seeded read order (the reads trigger the lazy row ordering, heap pruning and vector compaction at different moments): get_content, is_zero_entry, is_zero_column, entry iteration, get_number_of_columns, get_row as exactly the non-zero entries of each row; compressed variant = dense matrix in which identical columns share a representative. Evidence, not proof (<= 7 rows, <= 50 ops).',
        'level_note': 'trusted: dense model in pm_base_impl.h / models/linalg.h; never generated: unsorted input columns, source == target, erase_empty_row of a non-empty row, insert_column at an index that is in use',
        'technique': 'deterministic simulation: seeded client histories with seeded placement of the reads that force lazy internal work + dense-model refinement, lock-step across column representations',
        'rule': 'one evaluation = one plan (<= 50 ops) executed on all column types of one option family against the dense model; non-trivial = at least one mutating op and one audit; distinct = distinct hash of (family, sequence of model states)',
        'seconds': {'quick': 600, 'thorough': 3000},
        'real': ['gudhi/Matrix.h, Base_matrix.h, Base_matrix_with_column_compression.h, base_swap.h, matrix_row_access.h, all nine column headers, entry pools, Zp_field_operators'],
        'stub': ['none (callers are simulated clients)'],
        'probes_expected': ['probe.target_empty', 'probe.source_empty', 'probe.coefficient_zero', 'probe.coefficient_one', 'probe.zero_absent_entry', 'probe.zero_present_entry', 'probe.swap_rows', 'probe.swap_columns', 'probe.remove_column', 'probe.remove_last', 'probe.insert_at_index', 'probe.erase_empty_row', 'probe.insert_empty_column', 'probe.add_into_zero_compressed'],
        'assumptions': COMMON_ASSUME,
    },
    'C01': {
        'engine': 'st_hist',
        'runs': {'quick': 6000, 'thorough': 150000},
        'level_text': 'seeded search over operation histories of simulated clients (builder: insert_simplex / insert_simplex_and_subfaces with permuted and duplicated vertex ranges; bulk: insert_batch_vertices, clear, insert_graph through an adversarially ordered user graph, expansion; eraser: remove_maximal_simplex, prune_above_filtration, prune_above_dimension incl. negative and too-large arguments; auditor in seeded read order, with long stretches without dimension() so that the lazy dimension flag stays set) executed on every SimplexTreeOptions set in lock-step (sparse labels; contiguous labels for contiguous_vertices) against the abstract complex M1. Full audit: find on every vertex set, values, vertex / simplex / skeleton enumeration, boundary with opposite vertices, star and cofaces of every codimension, counts, dimension(sh), dimension(), upper_bound_dimension, operator== against trees rebuilt by another history (same type and Simplex_tree<default>) and != against a perturbed one; returned (handle, bool) pairs and prune return values. Gated, minimised, replayable. Evidence, not proof (<= 7 labels, dimension <= 4).',
        'level_note': 'trusted: model M1 (/verif/models/complex.h); generators respect the documented preconditions (no NaN, monotone values on insertion, maximal removal only, insert_graph on an empty tree, labels 0..n-1 under contiguous_vertices)',
        'technique': 'deterministic simulation: seeded client histories and environment (graph delivery order, duplicates) + reference-model refinement after every step',
        'rule': 'one evaluation = one plan (clients builder/bulk/eraser/scrambler/auditor interleaved, <= 60 ops, <= 7 labels) executed on all applicable Simplex_tree option sets against M1; non-trivial = at least one mutating op and one full audit; distinct = distinct hash of the sequence of model states',
        'real': ['gudhi/Simplex_tree.h and sub-headers (GUDHI_USE_TBB code path and sequential path)', 'gudhi/Rips_complex.h', 'gudhi/graph_simplicial_complex.h', 'boost::container flat_map / std::map, boost::intrusive list'], 'stub': ['tbb::parallel_sort -> sim_sort (seeded comparison schedule, /verif/shim/tbb/parallel_sort.h)', 'user graph -> sth::Adversarial_graph (seeded vertex/edge order, orientation, duplicate edges)', 'blocker oracle -> seeded deterministic predicate with re-entrant reads', 'callers -> simulated clients'],
        'probes_expected': ['probe.insert_graph', 'probe.expansion', 'probe.emptied_by_removal'],
        'assumptions': COMMON_ASSUME,
    },
    'C03': {
        'engine': 'st_hist',
        'runs': {'quick': 6000, 'thorough': 150000},
        'level_text': 'schedules: every filtration sort of the GUDHI_USE_TBB code path goes through a seeded sort (input permutation, pivots, processing order of the halves, leaf size/direction) that also checks the comparator is a strict weak order; each audited state is re-sorted under several sort seeds, in trees rebuilt by other insertion histories, in the sequential-sort build and in every option set: every sequence must be valid (each non-ignored simplex once, values non-decreasing, faces first; also with ignore_infinite_values) and all must be identical. Histories: scrambler client assigns arbitrary non-NaN values / reset_filtration, then make_filtration_non_decreasing must return true iff the least monotone function differs and produce it; prune_above_filtration = sublevel complex with truthful return; extend_filtration / decode_extended_filtration against the cone filtration of the vertex function. Evidence, not proof.',
        'level_note': 'trusted: model M1, the sim_sort shim; real oneTBB is not used for the verdict (its schedule is not controllable); caller duty clear_filtration() after modifications is honoured by the harness',
        'technique': 'deterministic simulation: seeded sort schedules behind the tbb::parallel_sort seam + seeded histories, validity and cross-schedule/history/configuration equality oracles',
        'rule': 'one evaluation = one plan (history ops + audits; every audited state sorted under >= 3 sort schedules, 1 other history, 9 configurations/builds); non-trivial = at least one mutating op and one audit; distinct = distinct hash of the sequence of model states',
        'real': ['gudhi/Simplex_tree.h and sub-headers (GUDHI_USE_TBB code path and sequential path)', 'gudhi/Rips_complex.h', 'gudhi/graph_simplicial_complex.h', 'boost::container flat_map / std::map, boost::intrusive list'], 'stub': ['tbb::parallel_sort -> sim_sort (seeded comparison schedule, /verif/shim/tbb/parallel_sort.h)', 'user graph -> sth::Adversarial_graph (seeded vertex/edge order, orientation, duplicate edges)', 'blocker oracle -> seeded deterministic predicate with re-entrant reads', 'callers -> simulated clients'],
        'probes_expected': ['probe.order_sequences', 'probe.mono_changed', 'probe.mono_unchanged', 'probe.extended_filtration'],
        'assumptions': COMMON_ASSUME,
    },
    'C04': {
        'engine': 'st_hist',
        'runs': {'quick': 6000, 'thorough': 150000},
        'level_text': 'the environment is an edge source delivering the vertices and edges of a seeded weighted graph (ties, isolated and missing vertices, sparse or contiguous labels) in a seeded order - in filtration order, vertices first then arbitrarily reordered edges, or mixed - to insert_edge_as_flag for every dim_max in -1..4; after every delivery added_simplices must be exactly M(after) minus M(before) without repetition and the tree must be the clique complex of what was delivered; at the end (after the documented make_filtration_non_decreasing when out of order) it must equal the clique complex, as must insert_graph(adversarially ordered graph with duplicate edges in both orientations)+expansion(d), expansion_with_blockers with a never-blocking oracle, expansion_with_blockers with a seeded predicate that re-enters the tree (largest subcomplex without blocked simplices), and Rips_complex from a distance matrix and from lattice points; all option sets that allow the call. Evidence, not proof (<= 8 vertices).',
        'level_note': 'trusted: clique-complex model in /verif/models/complex.h; documented undefined behaviour is never generated (existing edge/vertex as flag, edge before its endpoints, duplicate edges with different values)',
        'technique': 'deterministic simulation: seeded delivery order / duplication / orientation of externally supplied edges and seeded blocker callbacks + per-step reference-model refinement',
        'rule': 'one evaluation = one plan (one seeded graph, <= 36 delivery ops + finish with 5 one-shot routes) on all applicable option sets; non-trivial = at least one delivery executed and the final comparison done; distinct = distinct hash of the sequence of delivered-graph states',
        'real': ['gudhi/Simplex_tree.h and sub-headers (GUDHI_USE_TBB code path and sequential path)', 'gudhi/Rips_complex.h', 'gudhi/graph_simplicial_complex.h', 'boost::container flat_map / std::map, boost::intrusive list'], 'stub': ['tbb::parallel_sort -> sim_sort (seeded comparison schedule, /verif/shim/tbb/parallel_sort.h)', 'user graph -> sth::Adversarial_graph (seeded vertex/edge order, orientation, duplicate edges)', 'blocker oracle -> seeded deterministic predicate with re-entrant reads', 'callers -> simulated clients'],
        'probes_expected': ['probe.flag_in_order', 'probe.flag_out_of_order', 'probe.blocker_calls', 'probe.rips_matrix', 'probe.rips_points'],
        'assumptions': COMMON_ASSUME,
    },
    'C17': {
        'engine': 'skbl',
        'level_text': 'seeded search over edit histories (add_vertex, add_edge with and without blockers, add_simplex, remove_star of vertices/edges/simplices through every overload, contract_edge with and without the link condition, start from the simplex-list constructor) with a full audit after every few operations: contains() of every vertex set, complex_simplex_range, counts per dimension, connected components, link_condition, blocker_range = exactly the minimal non-faces of dimension >= 2, Euler characteristic; Betti numbers across contractions under the link condition. Failures are gated, minimised and replayable. Evidence, not proof (<= 8 vertices).',
        'level_note': 'trusted: model M1 + Z_2 rank computation in /verif/models; histories only (no schedule or fault exists for this class); one known finding is fenced narrowly (known_findings.txt C17-KF1)',
        'technique': 'deterministic simulation: seeded client histories + reference-model refinement (history dimension only)',
        'runs': {'quick': 20000, 'thorough': 400000},
        'rule': 'one evaluation = one plan (clients editor/eraser/contractor/auditor interleaved, <= 60 ops on <= 8 vertices; start from isolated vertices, from the simplex-list constructor or by add_vertex) executed on Skeleton_blocker_complex against model M1 after every op; non-trivial = at least one mutating op and one full audit; distinct = distinct hash of the sequence of model states',
        'real': ['gudhi/Skeleton_blocker.h and sub-headers', 'boost::graph adjacency_list'],
        'stub': ['none'],
        'probes_expected': ['probe.contract_with_link_condition', 'probe.contract_without_link_condition', 'probe.add_simplex_with_blockers_present', 'probe.remove_star_dim0', 'probe.remove_star_dim1', 'probe.remove_star_dim2', 'probe.init_from_list'],
        'assumptions': COMMON_ASSUME,
    },
    'C16': {
        'engine': 'toplex',
        'level_text': 'seeded search over operation histories (insert / remove maximal, non-maximal and absent simplices / remove vertex / contraction incl. absent vertices / independent insertion, bursts that cross the lazy cleaning bounds, labels above 2^32) with a full membership, maximality, maximal_simplices, maximal_cofaces and count audit against a brute-force abstract complex after every few operations, reads in seeded order (lazy reads mutate); failures are gated (fresh-process replay twice, same class and event-log hash), minimised (ddmin) and written as replay files. Evidence, not proof: universes of at most 8 labels.',
        'level_note': 'trusted: model M1 in /verif/models/complex.h, g++ 12 with ASan+UBSan; histories and lazy-cleaning points only (no schedule or I/O fault exists for this class)',
        'technique': 'deterministic simulation: seeded client histories + reference-model refinement (history dimension only)',
        'runs': {'quick': 20000, 'thorough': 400000},
        'rule': 'one evaluation = one plan (clients grower/eraser/contractor/auditor interleaved, <= 70 ops on <= 8 vertex labels) executed on Toplex_map and Lazy_toplex_map in lock-step against model M1 after every op; non-trivial = at least one mutating op executed and at least one full audit; distinct = distinct hash of the sequence of model states of the run',
        'real': ['gudhi/Toplex_map.h', 'gudhi/Lazy_toplex_map.h', 'boost::heap::fibonacci_heap', 'libstdc++ unordered containers'],
        'stub': ['none (callers are simulated clients; the lazy cleaning is triggered through the public API by bursts of insertions)'],
        'probes_expected': ['probe.remove_nonmaximal', 'probe.remove_absent', 'probe.contract_absent', 'probe.eager_lazy_renamed'],
        'assumptions': COMMON_ASSUME,
    },
}

HOOK_COMMITS = []

NOT_APPLICABLE = {
 'C02': 'batch function of (complex, field, min length, flag): no state a history could reach, no schedule, no I/O, no fault at its interface; its one scheduled ingredient (the filtration sort) is decided under C03. Deciding it means input generation against an independent reduction, which is not deterministic simulation.',
 'C10': 'stateless pure arithmetic on (p, a, b, c): no history, schedule, I/O or fault; the right tool is exhaustive/boundary enumeration, not simulation.',
 'C11': 'one batch call mapping (matrix, threshold, dim, p) to a stream of intervals; no mutable object outlives the call, nothing is scheduled, no fault can be injected at its interface; differential input generation is outside this technique family.',
 'C12': 'batch function of the edge list; the property (persistence preserved for all graphs) is quantified over inputs only and would be decided by input generation with a persistence oracle, not by simulation.',
 'C13': 'immutable after construction, pure index arithmetic over a finite configuration space (shapes x periodic masks) to enumerate, not to simulate; its only scheduled ingredient (the cell sort) is exercised by the sort seam of C03.',
 'C14': 'single batch passes over their input with no state observable between calls and no fault at the iterator interface; agreement with generic cubical persistence over all value patterns is exhaustive enumeration of weak orders, not simulation.',
 'C18': 'value types with pure constructors and pure arithmetic; a landscape is fully determined by its diagram (no history-dependent state), no schedule; file helpers are not part of the property.',
 'C19': 'batch construction from a point set, decided by geometry over inputs; nothing to schedule or to fail.',
 'C20': 'immutable combinatorial/geometric pure functions of (triangulation, simplex, point); no history, schedule or fault.',
}
_P = 'simulation target (DESIGN.md section 4) whose engine is not finished yet; not claimed until its check is quiet on the unchanged tree for the right reasons'
PLANNED = {k: _P for k in ['C05', 'C06', 'C07', 'C08', 'C09', 'C15', 'C16', 'C17']}
