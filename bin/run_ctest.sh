#!/bin/bash
# usage: run_ctest.sh <worktree> <ctest -R regex>
# Configures <worktree>/_build (once) like the project's reference build (RelWithDebInfo => -O2 -g -DNDEBUG, TBB on),
# builds only the executables of the tests matching the regex, and runs them with ctest. Exit 0 iff all pass.
WT=$1; RX=$2
B=$WT/_build
if [ ! -f $B/build.ninja ]; then
  cmake -G Ninja -S $WT -B $B -DCMAKE_BUILD_TYPE=RelWithDebInfo -DWITH_GUDHI_PYTHON=OFF -DWITH_GUDHI_GUDHUI=OFF -DWITH_GUDHI_UTILITIES=OFF -DWITH_GUDHI_TEST=ON -DCMAKE_CXX_FLAGS="-Wno-error" > $B.conf.log 2>&1 || { echo "configure failed, see $B.conf.log"; exit 2; }
fi
TARGETS=$(ctest --test-dir $B -N -R "$RX" 2>/dev/null | sed -nE 's/^ *Test +#[0-9]+: +//p' | tr '
' ' ')
[ -n "$TARGETS" ] || { echo "no test matches $RX"; exit 2; }
echo "building: $TARGETS"
ninja -C $B -j6 -k0 $TARGETS > $B.build.log 2>&1 || { echo "BUILD FAILED, see $B.build.log"; tail -30 $B.build.log; exit 1; }
ctest --test-dir $B -R "$RX" -j6 --timeout 900 --output-on-failure 2>&1 | tail -40
exit ${PIPESTATUS[0]}
