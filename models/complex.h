// M1 - abstract (filtered) simplicial complex on a tiny label universe. Independent of GUDHI.
// A simplex is a non-empty bit mask over the indices 0..n-1 of a sorted label list; the complex is the set of masks
// present together with a value each. Everything is by brute force over the <= 2^n masks: this is the specification.
#pragma once
#include <cstdint>
#include <vector>
#include <map>
#include <string>
#include <algorithm>
#include <cmath>
#include <cstring>
#include <functional>

namespace model {

typedef uint32_t Mask;
inline int popcount(Mask m) { return __builtin_popcount(m); }
inline int dim_of(Mask m) { return popcount(m) - 1; }
inline bool subset(Mask a, Mask b) { return (a & b) == a; }

struct Complex {
  int n = 0;                    // size of the universe
  std::vector<long> labels;     // sorted, distinct labels; index i <-> labels[i]
  std::vector<char> in;         // in[mask]
  std::vector<double> val;      // val[mask] (meaningful when in[mask])

  Complex() {}
  explicit Complex(const std::vector<long>& l) : n((int)l.size()), labels(l), in(1u << l.size(), 0), val(1u << l.size(), 0.0) { std::sort(labels.begin(), labels.end()); }
  Mask full() const { return (1u << n) - 1; }
  bool has(Mask m) const { return m != 0 && m <= full() && in[m]; }
  void clear() { std::fill(in.begin(), in.end(), 0); }
  size_t size() const { size_t c = 0; for (Mask m = 1; m <= full(); ++m) c += in[m]; return c; }
  bool empty() const { return size() == 0; }
  int dimension() const { int d = -1; for (Mask m = 1; m <= full(); ++m) if (in[m]) d = std::max(d, dim_of(m)); return d; }
  std::vector<size_t> count_by_dim() const { std::vector<size_t> r(dimension() + 1, 0); for (Mask m = 1; m <= full(); ++m) if (in[m]) r[dim_of(m)]++; return r; }
  size_t num_vertices() const { size_t c = 0; for (int i = 0; i < n; ++i) c += in[1u << i]; return c; }
  bool closed() const { for (Mask m = 1; m <= full(); ++m) if (in[m]) for (Mask f = (m - 1) & m; f; f = (f - 1) & m) if (!in[f]) return false; return true; }
  bool monotone() const { for (Mask m = 1; m <= full(); ++m) if (in[m]) for (Mask f = (m - 1) & m; f; f = (f - 1) & m) if (in[f] && val[f] > val[m]) return false; return true; }
  bool all_facets_in(Mask m) const { if (popcount(m) == 1) return true; for (int i = 0; i < n; ++i) if (m >> i & 1) if (!in[m & ~(1u << i)]) return false; return true; }
  bool maximal(Mask m) const { if (!has(m)) return false; for (int i = 0; i < n; ++i) if (!(m >> i & 1) && in[m | (1u << i)]) return false; return true; }
  std::vector<Mask> simplices() const { std::vector<Mask> r; for (Mask m = 1; m <= full(); ++m) if (in[m]) r.push_back(m); return r; }
  std::vector<Mask> maximal_simplices() const { std::vector<Mask> r; for (Mask m = 1; m <= full(); ++m) if (maximal(m)) r.push_back(m); return r; }
  // cofaces of codimension c (c == 0: the whole star, including m itself)
  std::vector<Mask> cofaces(Mask m, int c) const { std::vector<Mask> r; for (Mask x = 1; x <= full(); ++x) if (in[x] && subset(m, x) && (c == 0 || popcount(x) == popcount(m) + c)) r.push_back(x); return r; }
  std::vector<Mask> facets_of(Mask m) const { std::vector<Mask> r; if (popcount(m) > 1) for (int i = 0; i < n; ++i) if (m >> i & 1) r.push_back(m & ~(1u << i)); return r; }

  // insertion of a simplex alone (its facets must be present): new takes v, existing keeps the smaller
  void insert_one(Mask m, double v) { if (in[m]) val[m] = std::min(val[m], v); else { in[m] = 1; val[m] = v; } }
  // insertion with all faces, same rule for each face
  void insert_with_faces(Mask m, double v) { for (Mask f = m; f; f = (f - 1) & m) insert_one(f, v); }
  void remove_star(Mask m) { for (Mask x = 1; x <= full(); ++x) if (in[x] && subset(m, x)) in[x] = 0; }
  bool prune_above_value(double t) { bool any = false; for (Mask m = 1; m <= full(); ++m) if (in[m] && val[m] > t) { in[m] = 0; any = true; } return any; }
  bool prune_above_dim(int d) { bool any = false; for (Mask m = 1; m <= full(); ++m) if (in[m] && dim_of(m) > d) { in[m] = 0; any = true; } return any; }
  // least monotone function above the values; returns whether something changed
  bool make_non_decreasing() { bool ch = false; std::vector<double> nv = val; for (Mask m = 1; m <= full(); ++m) if (in[m]) for (Mask f = (m - 1) & m; f; f = (f - 1) & m) if (in[f] && val[f] > nv[m]) { nv[m] = val[f]; } for (Mask m = 1; m <= full(); ++m) if (in[m] && nv[m] != val[m]) { ch = true; val[m] = nv[m]; } return ch; }
  // image under the vertex identification drop -> keep
  void contract(int keep, int drop) { std::vector<char> ni(in.size(), 0); std::vector<double> nv(val.size(), 0); for (Mask m = 1; m <= full(); ++m) if (in[m]) { Mask y = m; if (y >> drop & 1) { y &= ~(1u << drop); y |= 1u << keep; } if (!ni[y]) { ni[y] = 1; nv[y] = val[m]; } else nv[y] = std::min(nv[y], val[m]); } in.swap(ni); val.swap(nv); }

  std::vector<long> word(Mask m) const { std::vector<long> w; for (int i = 0; i < n; ++i) if (m >> i & 1) w.push_back(labels[i]); return w; }
  // mask of a label word; returns 0 if some label is foreign
  Mask mask_of(const std::vector<long>& w) const { Mask m = 0; for (long l : w) { auto it = std::lower_bound(labels.begin(), labels.end(), l); if (it == labels.end() || *it != l) return 0; m |= 1u << (it - labels.begin()); } return m; }
  std::string str(Mask m) const { std::string s = "{"; bool f = true; for (int i = 0; i < n; ++i) if (m >> i & 1) { if (!f) s += ","; s += std::to_string(labels[i]); f = false; } return s + "}"; }
  uint64_t hash(bool with_values = true) const {
    uint64_t h = 1469598103934665603ull;
    for (Mask m = 1; m <= full(); ++m) if (in[m]) { h ^= m; h *= 1099511628211ull; if (with_values) { double d = val[m]; uint64_t b; memcpy(&b, &d, 8); h ^= b; h *= 1099511628211ull; } }
    return h;
  }
  bool same_set(const Complex& o) const { return in == o.in; }
};

// clique complex of a weighted graph, truncated at dimension dmax (dmax < 0: vertices and edges only are taken as given, i.e. the graph itself)
// vval[i] < 0 means vertex absent; eval[i][j] < 0 means edge absent. A blocker predicate (may be empty) vetoes simplices of dimension >= 2:
// the result is then the largest subcomplex of the clique complex containing no blocked simplex, built faces first.
inline Complex clique_complex(const std::vector<long>& labels, const std::vector<double>& vval, const std::vector<std::vector<double>>& eval, int dmax,
                              const std::function<bool(Mask)>& blocked = nullptr) {
  Complex c(labels);
  int n = c.n;
  std::vector<Mask> order;
  for (Mask m = 1; m <= c.full(); ++m) order.push_back(m);
  std::stable_sort(order.begin(), order.end(), [](Mask a, Mask b) { return popcount(a) < popcount(b); });
  for (Mask m : order) {
    int k = popcount(m);
    if (k == 1) { int i = __builtin_ctz(m); if (vval[i] >= 0) { c.in[m] = 1; c.val[m] = vval[i]; } continue; }
    if (k == 2) { int i = __builtin_ctz(m), j = 31 - __builtin_clz(m); if (eval[i][j] >= 0 && c.in[1u << i] && c.in[1u << j]) { c.in[m] = 1; c.val[m] = eval[i][j]; } continue; }
    if (k - 1 > dmax) continue;
    bool ok = true; double v = 0;
    for (int i = 0; i < n && ok; ++i) if (m >> i & 1) { Mask f = m & ~(1u << i); if (!c.in[f]) ok = false; else v = std::max(v, c.val[f]); }
    if (!ok) continue;
    if (blocked && blocked(m)) continue;
    c.in[m] = 1; c.val[m] = v;
  }
  return c;
}

}  // namespace model
