// M3 - filtered cell complexes over Z_p and the textbook left-to-right column reduction. Independent of GUDHI.
// Cells come from a pool (the simplices on NV vertices, oriented by sorted vertex order, each basis element optionally rescaled
// by a unit so that boundary coefficients are arbitrary non-zero residues while d.d = 0 still holds).
#pragma once
#include "linalg.h"
#include <map>
#include <tuple>

namespace model {

struct Pool_cell { Mask mask; int dim; std::vector<std::pair<int, int>> bd; };  // bd: (pool index of the facet, sign +1/-1)
struct Pool {
  int nv; std::vector<Pool_cell> cells; std::map<Mask, int> idx;
  explicit Pool(int nv_, int maxdim = 3) : nv(nv_) {
    std::vector<Mask> masks; for (Mask m = 1; m < (1u << nv); ++m) if (popcount(m) <= maxdim + 1) masks.push_back(m);
    std::sort(masks.begin(), masks.end(), [](Mask a, Mask b) { int pa = popcount(a), pb = popcount(b); return pa != pb ? pa < pb : a < b; });
    for (Mask m : masks) { idx[m] = (int)cells.size(); cells.push_back({m, popcount(m) - 1, {}}); }
    for (auto& c : cells) { if (c.dim == 0) continue; int i = 0; for (int v = 0; v < nv; ++v) if (c.mask >> v & 1) { c.bd.push_back({idx[c.mask & ~(1u << v)], (i % 2 == 0) ? 1 : -1}); ++i; } }
  }
};

struct Bar { int dim; int birth; int death; bool operator<(const Bar& o) const { return std::tie(dim, birth, death) < std::tie(o.dim, o.birth, o.death); } bool operator==(const Bar& o) const { return dim == o.dim && birth == o.birth && death == o.death; } };

// A filtration: cells in order; cell k has an identifier, a dimension and a boundary over identifiers
struct Filt_cell { int pool; int id; int dim; std::vector<std::pair<int, unsigned>> bd; /* (id of the face, coefficient in 1..p-1) */ };
struct Filtration {
  unsigned p = 2; std::vector<Filt_cell> cells;
  int size() const { return (int)cells.size(); }
  int pos_of_id(int id) const { for (int i = 0; i < size(); ++i) if (cells[i].id == id) return i; return -1; }
  bool has_pool(int pc) const { for (auto& c : cells) if (c.pool == pc) return true; return false; }
  int id_of_pool(int pc) const { for (auto& c : cells) if (c.pool == pc) return c.id; return -1; }
  // boundary matrix by position: column j = boundary of the cell at position j (dense, size N)
  Mat boundary_matrix() const {  // returned as rows x cols (m[r][c])
    int n = size(); Mat b(n, Vec(n, 0));
    for (int j = 0; j < n; ++j) for (auto& f : cells[j].bd) { int r = pos_of_id(f.first); b[r][j] = f.second % p; }
    return b;
  }
  bool is_face(int i, int j) const { for (auto& f : cells[j].bd) if (f.first == cells[i].id) return true; return false; }  // cell i is a facet of cell j
  bool has_coface(int i) const { for (int j = 0; j < size(); ++j) if (j != i && is_face(i, j)) return true; return false; }
  // standard reduction; barcode by position, sorted
  std::vector<Bar> barcode() const {
    int n = size(); Mat b = boundary_matrix();
    std::vector<Vec> col(n, Vec(n, 0)); for (int j = 0; j < n; ++j) for (int r = 0; r < n; ++r) col[j][r] = b[r][j];
    std::vector<int> low_to_col(n, -1), birth_bar(n, -1); std::vector<Bar> bars;
    auto low = [&](const Vec& c) { for (int r = n - 1; r >= 0; --r) if (c[r] % p) return r; return -1; };
    for (int j = 0; j < n; ++j) {
      int l;
      while ((l = low(col[j])) >= 0 && low_to_col[l] >= 0) {
        const Vec& o = col[low_to_col[l]]; unsigned f = (unsigned)((uint64_t)col[j][l] * zp_inv(o[l], p) % p);
        for (int r = 0; r < n; ++r) col[j][r] = (unsigned)((col[j][r] + (uint64_t)(p - f) * o[r]) % p);
      }
      if (l >= 0) { low_to_col[l] = j; bars[birth_bar[l]].death = j; } else { birth_bar[j] = (int)bars.size(); bars.push_back({cells[j].dim, j, -1}); }
    }
    std::sort(bars.begin(), bars.end());
    return bars;
  }
  uint64_t hash() const { uint64_t h = 1469598103934665603ull; for (auto& c : cells) { h ^= (uint64_t)c.pool * 131 + c.id; h *= 1099511628211ull; } return h; }
};

}  // namespace model
