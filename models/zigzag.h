// M5 - zigzag interval decomposition from generalised ranks over Z_2. Independent of GUDHI.
// For the sequence of complexes K_0..K_{n-1} (after each arrow), H_k(K_i) with explicit bases and the maps induced by inclusion;
// for every index interval [s,t] the generalised rank r[s,t] = rank(lim -> colim) of the restriction, computed as kernel/cokernel of
// block matrices; multiplicity of [s,t] = r[s,t] - r[s-1,t] - r[s,t+1] + r[s-1,t+1]. Cells: the simplices of dimension <= 3 on 5 vertices.
#pragma once
#include <bitset>
#include <cstdint>
#include <cstdio>
#include <cstdlib>
#include <map>
#include <tuple>
#include <vector>
#include <algorithm>
namespace zzmodel {
using u64 = uint64_t;
struct ZPool { int NV = 5; std::vector<int> vmask; std::vector<int> dim; std::vector<u64> bd; std::map<int,int> idx; };
inline ZPool& zpool() { static ZPool p; return p; }
#define P zpool()
inline void build_pool(int NV = 5) {
  if (!P.vmask.empty()) return; P.NV = NV;
  std::vector<int> masks; for (int m = 1; m < (1<<NV); ++m) masks.push_back(m);
  std::sort(masks.begin(), masks.end(), [](int a, int b){ int pa=__builtin_popcount(a), pb=__builtin_popcount(b); return pa!=pb? pa<pb : a<b; });
  for (int m : masks) { P.idx[m] = P.vmask.size(); P.vmask.push_back(m); P.dim.push_back(__builtin_popcount(m)-1); }
  P.bd.assign(P.vmask.size(), 0);
  for (size_t i = 0; i < P.vmask.size(); ++i) { int m = P.vmask[i]; if (P.dim[i]==0) continue; for (int v=0; v<NV; ++v) if (m>>v&1) P.bd[i] |= 1ull << P.idx[m & ~(1<<v)]; }
}
// xor-basis with labels
struct Basis { std::vector<u64> vec, lab; // kept with distinct highest bits
  bool add(u64 v, u64 l) { reduce(v,l); if (!v) return false; vec.push_back(v); lab.push_back(l); return true; }
  void reduce(u64& v, u64& l) const { bool ch=true; while (ch && v) { ch=false; for (size_t i=0;i<vec.size();++i) if ((63-__builtin_clzll(vec[i]))==(63-__builtin_clzll(v))) { v^=vec[i]; l^=lab[i]; ch=true; break; } } }
};
inline u64 boundary_of_chain(u64 c) { u64 r=0; while (c) { int i=__builtin_ctzll(c); c&=c-1; r^=P.bd[i]; } return r; }
struct Hom { std::vector<u64> reps; Basis red; };   // red: B basis (label 0) then reps (label 1<<j)
inline Hom homology(u64 K, int k) {
  Hom h; // boundaries
  for (size_t i=0;i<P.vmask.size();++i) if ((K>>i&1) && P.dim[i]==k+1) h.red.add(P.bd[i], 0);
  // cycles: kernel of boundary on k-cells of K
  Basis img; std::vector<u64> cyc;
  for (size_t i=0;i<P.vmask.size();++i) if ((K>>i&1) && P.dim[i]==k) { u64 v = (k==0?0:P.bd[i]), l = 1ull<<i; img.reduce(v,l); if (v) { img.vec.push_back(v); img.lab.push_back(l);} else cyc.push_back(l); }
  for (u64 z : cyc) { u64 v=z, l=0; h.red.reduce(v,l); if (v) { h.red.vec.push_back(v); h.red.lab.push_back(l ^ (1ull<<h.reps.size())); h.reps.push_back(z); } }
  return h;
}
inline u64 coords(const Hom& h, u64 z) { u64 v=z,l=0; h.red.reduce(v,l); if (v) { fprintf(stderr,"coords: not a cycle class\n"); abort(); } return l; }
using BS = std::bitset<640>;
inline int rank_of(std::vector<BS> rows, int ncols) { int r=0; for (int c=0;c<ncols && r<(int)rows.size();++c){ int p=-1; for (int i=r;i<(int)rows.size();++i) if (rows[i][c]) {p=i;break;} if(p<0)continue; std::swap(rows[r],rows[p]); for (int i=0;i<(int)rows.size();++i) if(i!=r&&rows[i][c]) rows[i]^=rows[r]; ++r;} return r; }
// kernel of matrix given as rows (constraints) over ncols variables -> basis vectors
inline std::vector<BS> kernel(std::vector<BS> rows, int ncols) {
  std::vector<int> pivcol; int r=0; for (int c=0;c<ncols && r<(int)rows.size();++c){ int p=-1; for (int i=r;i<(int)rows.size();++i) if (rows[i][c]) {p=i;break;} if(p<0)continue; std::swap(rows[r],rows[p]); for (int i=0;i<(int)rows.size();++i) if(i!=r&&rows[i][c]) rows[i]^=rows[r]; pivcol.push_back(c); ++r; }
  std::vector<char> isp(ncols,0); for (int c: pivcol) isp[c]=1; std::vector<BS> ker;
  for (int f=0; f<ncols; ++f) if(!isp[f]) { BS x; x[f]=1; for (int i=0;i<r;++i) if (rows[i][f]) x[pivcol[i]]=1; ker.push_back(x); }
  return ker;
}
struct Interval { int dim, b, d; bool operator<(const Interval&o) const { return std::tie(dim,b,d)<std::tie(o.dim,o.b,o.d);} bool operator==(const Interval&o) const {return dim==o.dim&&b==o.b&&d==o.d;} };
// complexes Ks[0..n-1] (after each arrow). returns intervals in GUDHI convention (birth arrow, death arrow or -1)
inline std::vector<Interval> oracle(const std::vector<u64>& Ks) {
  int n = Ks.size(); std::vector<Interval> out;
  for (int k=0;k<=3;++k) {
    std::vector<Hom> H; for (u64 K: Ks) H.push_back(homology(K,k));
    std::vector<int> off(n+1,0); for (int i=0;i<n;++i) off[i+1]=off[i]+H[i].reps.size();
    if (off[n]==0) continue;
    // arrow maps between i and i+1
    auto rk = [&](int s,int t)->int { if (s<0||t>=n||s>t) return 0; int base=off[s], N=off[t+1]-off[s]; if (N==0||H[s].reps.empty()) return 0;
      std::vector<BS> C, E; // constraints rows; relation vectors
      for (int i=s;i<t;++i) { bool fwd = (Ks[i] & ~Ks[i+1])==0; int src = fwd? i : i+1, dst = fwd? i+1 : i;
        // map M: V_src -> V_dst ; column j = coords_dst(reps_src[j])
        std::vector<u64> col(H[src].reps.size()); for (size_t j=0;j<col.size();++j) col[j]=coords(H[dst], H[src].reps[j]);
        // constraints: for each row q of dst: sum_j M[q][j] x_src[j] + x_dst[q] = 0
        for (size_t q=0;q<H[dst].reps.size();++q) { BS row; for (size_t j=0;j<col.size();++j) if (col[j]>>q&1) row[off[src]-base+j]=1; row[off[dst]-base+q].flip(); C.push_back(row);} 
        // relations: e_j at src  ~  M e_j at dst
        for (size_t j=0;j<col.size();++j) { BS rel; rel[off[src]-base+j]=1; for (size_t q=0;q<H[dst].reps.size();++q) if (col[j]>>q&1) rel[off[dst]-base+q].flip(); E.push_back(rel);} }
      std::vector<BS> ker = kernel(C, N); std::vector<BS> all = E; int rE = rank_of(E, N);
      for (auto& x: ker) { BS p; for (size_t j=0;j<H[s].reps.size();++j) if (x[j]) p[j]=1; all.push_back(p);} 
      return rank_of(all, N) - rE; };
    std::vector<std::vector<int>> r(n+2, std::vector<int>(n+2,0));
    for (int s=0;s<n;++s) for (int t=s;t<n;++t) r[s+1][t+1]=rk(s,t);
    auto R=[&](int s,int t){ if(s<0||t>=n||s>t) return 0; return r[s+1][t+1]; };
    for (int s=0;s<n;++s) for (int t=s;t<n;++t) { int m = R(s,t)-R(s-1,t)-R(s,t+1)+R(s-1,t+1); if (m<0) { fprintf(stderr,"negative multiplicity\n"); abort(); } for (int q=0;q<m;++q) out.push_back({k, s, t==n-1? -1 : t+1}); }
  }
  std::sort(out.begin(), out.end()); return out;
}

#undef P
}  // namespace zzmodel
