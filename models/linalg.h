// M4 - tiny dense linear algebra over Z_p (p prime, p < 2^16). Independent of GUDHI. Gaussian elimination only.
#pragma once
#include <vector>
#include <cstdint>
#include <algorithm>
#include "complex.h"

namespace model {

typedef std::vector<unsigned> Vec;
typedef std::vector<Vec> Mat;  // row major: m[r][c]

inline unsigned zp_inv(unsigned a, unsigned p) {  // a != 0 mod p
  long t = 0, nt = 1, r = p, nr = a % p;
  while (nr) { long q = r / nr; long x = t - q * nt; t = nt; nt = x; x = r - q * nr; r = nr; nr = x; }
  return (unsigned)((t % (long)p + p) % p);
}
inline unsigned zp_norm(long a, unsigned p) { long r = a % (long)p; return (unsigned)(r < 0 ? r + p : r); }

// reduced row echelon form in place; returns pivot columns
inline std::vector<int> rref(Mat& m, unsigned p) {
  std::vector<int> piv;
  size_t rows = m.size(), cols = rows ? m[0].size() : 0, r = 0;
  for (size_t c = 0; c < cols && r < rows; ++c) {
    size_t s = r; while (s < rows && m[s][c] % p == 0) ++s;
    if (s == rows) continue;
    std::swap(m[s], m[r]);
    unsigned iv = zp_inv(m[r][c], p);
    for (size_t j = 0; j < cols; ++j) m[r][j] = (unsigned)((uint64_t)m[r][j] * iv % p);
    for (size_t i = 0; i < rows; ++i) if (i != r && m[i][c] % p) {
      unsigned f = m[i][c] % p;
      for (size_t j = 0; j < cols; ++j) m[i][j] = (unsigned)(((uint64_t)m[i][j] + (uint64_t)(p - f) * m[r][j]) % p);
    }
    piv.push_back((int)c); ++r;
  }
  return piv;
}
inline int rank(Mat m, unsigned p) { return (int)rref(m, p).size(); }
// matrix whose columns are the given vectors (all of length n)
inline Mat from_columns(const std::vector<Vec>& cols, size_t n) {
  Mat m(n, Vec(cols.size(), 0));
  for (size_t j = 0; j < cols.size(); ++j) for (size_t i = 0; i < n; ++i) m[i][j] = cols[j][i];
  return m;
}
inline int rank_of_columns(const std::vector<Vec>& cols, size_t n, unsigned p) { return cols.empty() ? 0 : rank(from_columns(cols, n), p); }
// is v in the span of the columns?
inline bool in_span(const std::vector<Vec>& cols, const Vec& v, unsigned p) {
  std::vector<Vec> c2 = cols; int r0 = rank_of_columns(cols, v.size(), p); c2.push_back(v);
  return rank_of_columns(c2, v.size(), p) == r0;
}
inline Mat mul(const Mat& a, const Mat& b, unsigned p) {
  size_t n = a.size(), k = b.size(), m = k ? b[0].size() : 0;
  Mat c(n, Vec(m, 0));
  for (size_t i = 0; i < n; ++i) for (size_t l = 0; l < k; ++l) if (a[i][l] % p) for (size_t j = 0; j < m; ++j) c[i][j] = (unsigned)((c[i][j] + (uint64_t)a[i][l] * b[l][j]) % p);
  return c;
}
inline bool is_zero(const Vec& v, unsigned p) { for (unsigned x : v) if (x % p) return false; return true; }

// Betti numbers of an abstract simplicial complex over Z_p (orientation by sorted vertex order)
inline std::vector<int> betti(const Complex& c, unsigned p = 2) {
  int D = c.dimension();
  std::vector<int> b;
  if (D < 0) return b;
  std::vector<std::vector<Mask>> byd(D + 2);
  for (Mask m : c.simplices()) byd[dim_of(m)].push_back(m);
  std::vector<int> rk(D + 2, 0);  // rk[d] = rank of boundary C_d -> C_{d-1}
  for (int d = 1; d <= D; ++d) {
    Mat m(byd[d - 1].size(), Vec(byd[d].size(), 0));
    for (size_t j = 0; j < byd[d].size(); ++j) {
      Mask s = byd[d][j]; int k = 0;
      for (int i = 0; i < c.n; ++i) if (s >> i & 1) {
        Mask f = s & ~(1u << i);
        size_t r = std::lower_bound(byd[d - 1].begin(), byd[d - 1].end(), f) - byd[d - 1].begin();
        m[r][j] = (k % 2 == 0) ? 1 : p - 1; ++k;
      }
    }
    rk[d] = rank(m, p);
  }
  for (int d = 0; d <= D; ++d) b.push_back((int)byd[d].size() - rk[d] - rk[d + 1]);
  return b;
}
inline long euler(const Complex& c) { long e = 0; for (Mask m : c.simplices()) e += (dim_of(m) % 2 == 0) ? 1 : -1; return e; }

}  // namespace model
