#include <gudhi/Simplex_tree.h>
#include <cstdio>
#include <random>
#include <vector>
#include <algorithm>
namespace verif_sim { uint64_t sort_seed = 1; unsigned long sort_calls = 0; unsigned long swo_violations = 0; }
using namespace Gudhi; typedef std::vector<int> Sx;
template<class ST> std::vector<Sx> order_of(ST& st) { st.clear_filtration(); std::vector<Sx> r; for (auto sh : st.filtration_simplex_range()) { Sx v; for (auto x : st.simplex_vertex_range(sh)) v.push_back(x); r.push_back(v); } return r; }
int main(int argc, char** argv) { int runs = argc > 1 ? atoi(argv[1]) : 200; int nondet = 0, invalid = 0; long seqs = 0;
  for (int run = 0; run < runs; ++run) { std::mt19937 rng(run * 17u + 3); std::vector<std::pair<Sx,double>> ins; int k = 3 + rng() % 10; double vals[] = {0, 1, 1, 2};
    for (int i = 0; i < k; ++i) { Sx x; int n = 1 + rng() % 4; for (int j = 0; j < n; ++j) x.push_back(rng() % 7); ins.push_back({x, vals[rng() % 4]}); }
    std::vector<Sx> ref; bool have = false;
    for (int hist = 0; hist < 3; ++hist) { Simplex_tree<> st; auto seq = ins; if (hist) std::shuffle(seq.begin(), seq.end(), rng); for (auto& p : seq) st.insert_simplex_and_subfaces(p.first, p.second);
      // histories with different orders give different min-values? insert_simplex_and_subfaces takes min => order independent. 
      for (int sch = 0; sch < 4; ++sch) { verif_sim::sort_seed = run * 1000 + hist * 10 + sch; auto o = order_of(st); ++seqs; if (!have) { ref = o; have = true; } else if (o != ref) ++nondet;
        // validity: faces first, non-decreasing
        double last = -1e300; for (size_t i = 0; i < o.size(); ++i) { Sx v = o[i]; std::sort(v.begin(), v.end()); double f = st.filtration(st.find(v)); if (f < last) ++invalid; last = f; } } } }
  printf("runs=%d sequences=%ld nondeterministic=%d invalid=%d sort_calls=%lu strict-weak-order violations=%lu\n", runs, seqs, nondet, invalid, verif_sim::sort_calls, verif_sim::swo_violations); }
