// Feasibility probe (scratch): Skeleton_blocker_complex vs abstract complex model.
#include <gudhi/Skeleton_blocker.h>
#include <cstdio>
#include <set>
#include <map>
#include <vector>
#include <random>
#include <string>
#include <algorithm>
using namespace Gudhi::skeleton_blocker;
typedef Skeleton_blocker_complex<Skeleton_blocker_simple_traits> Complex;
typedef Complex::Vertex_handle Vh; typedef Complex::Simplex Simplex;
static const int NV=6;
struct Model { std::set<int> K; // bitmasks over NV vertices
  bool has(int m) const { return K.count(m); }
  bool proper_faces_in(int m) const { for(int f=(m-1)&m; f; f=(f-1)&m) if(!K.count(f)) return false; return true; }
  void close_add_through(int ab){ // add every tau ⊇ ab whose proper faces are all present, by increasing size
    for(int sz=3; sz<=NV; ++sz) for(int m=1;m<(1<<NV);++m) if(__builtin_popcount(m)==sz && (m&ab)==ab && !K.count(m) && proper_faces_in(m) && !blocked_elsewhere(m,ab)) K.insert(m); }
  std::set<int> blockers; // only used to decide add_edge_without_blockers semantics: existing blockers stay
  bool blocked_elsewhere(int m,int ab) const { for(int b: blockers) if((b&m)==b) return true; return false; }
  std::set<int> minimal_nonfaces() const { std::set<int> r; for(int m=1;m<(1<<NV);++m) if(__builtin_popcount(m)>=3 && !K.count(m) && proper_faces_in(m)) r.insert(m); return r; }
};
static Simplex to_simplex(int m){ Simplex s; for(int v=0;v<NV;++v) if(m>>v&1) s.add_vertex(Vh(v)); return s; }
static int to_mask(const Simplex& s){ int m=0; for(auto v: s) m|=1<<v.vertex; return m; }
int main(int argc,char**argv){ int runs=argc>1?atoi(argv[1]):300; std::map<std::string,int> kinds; long ops=0; int shown=0;
  for(int run=0;run<runs;++run){ std::mt19937 rng(run*40503u+5); Complex c; Model m; std::vector<int> alive; std::string hist;
    for(int i=0;i<NV;++i){ c.add_vertex(); m.K.insert(1<<i);} 
    int steps=4+rng()%25; bool dead=false; std::set<int> gone; // removed vertices
    for(int s=0;s<steps && !dead;++s){ ++ops; int k=rng()%14; char buf[96]; 
      auto rv=[&](){ std::vector<int> vs; for(int v=0;v<NV;++v) if(m.K.count(1<<v)) vs.push_back(v); return vs; };
      auto vs=rv(); if(vs.size()<2) break; int a=vs[rng()%vs.size()], b=vs[rng()%vs.size()]; if(a==b) continue; int ab=(1<<a)|(1<<b);
      std::string op;
      if(k<3){ // add_edge (with blockers): only the edge appears
        if(m.has(ab)) continue; c.add_edge(Vh(a),Vh(b)); m.K.insert(ab); snprintf(buf,96,"add_edge(%d,%d) ",a,b); op=buf;
      } else if(k<6){ // add_edge_without_blockers: flag-like completion through ab, but existing blockers remain
        if(m.has(ab)) continue; m.blockers=m.minimal_nonfaces(); c.add_edge_without_blockers(Vh(a),Vh(b)); m.K.insert(ab); m.close_add_through(ab); snprintf(buf,96,"add_edge_nb(%d,%d) ",a,b); op=buf;
      } else if(k<8){ // add_simplex: dim>=2, absent
        std::vector<int> cand; for(int x=1;x<(1<<NV);++x) if(__builtin_popcount(x)>=3 && __builtin_popcount(x)<=4 && !m.has(x)){ bool ok=true; for(int v=0;v<NV;++v) if((x>>v&1) && !m.K.count(1<<v)) ok=false; if(ok) cand.push_back(x);} if(cand.empty()) continue; int x=cand[rng()%cand.size()];
        c.add_simplex(to_simplex(x)); for(int f=x; f; f=(f-1)&x) m.K.insert(f); snprintf(buf,96,"add_simplex(%#x) ",x); op=buf;
      } else if(k<11){ // remove_star of a present simplex
        std::vector<int> pres(m.K.begin(),m.K.end()); int x=pres[rng()%pres.size()]; c.remove_star(to_simplex(x)); for(auto it=m.K.begin();it!=m.K.end();) if((*it&x)==x) it=m.K.erase(it); else ++it; snprintf(buf,96,"remove_star(%#x) ",x); op=buf;
      } else { // contract edge ab if present
        if(!m.has(ab)) continue; bool lc=c.link_condition(Vh(a),Vh(b)); if(!lc){ m.blockers.clear(); // remove blockers through ab first
            std::set<int> bl=m.minimal_nonfaces(); m.blockers.clear(); for(int x: bl) if((x&ab)!=ab) m.blockers.insert(x); m.close_add_through(ab);} 
        c.contract_edge(Vh(a),Vh(b)); std::set<int> img; for(int x: m.K){ int y=x; if(y>>b&1){ y&=~(1<<b); y|=1<<a;} img.insert(y);} m.K=img; snprintf(buf,96,"contract(%d,%d;lc=%d) ",a,b,lc); op=buf; }
      hist+=op;
      // audit
      std::string first;
      for(int x=1;x<(1<<NV);++x){ bool ok=true; for(int v=0;v<NV;++v) if((x>>v&1) && !c.contains_vertex(Vh(v))) ok=false; bool in = ok && c.contains(to_simplex(x)); if(in!=m.has(x)){ first="contains mismatch after "+op; break; } }
      if(first.empty()){ std::set<int> bl; for(auto bh: c.const_blocker_range()) bl.insert(to_mask(*bh)); if(bl!=m.minimal_nonfaces()) first="blockers != minimal non-faces after "+op; }
      if(!first.empty()){ std::string key=first.substr(0,first.find('(')); if(kinds[key]++<2 && shown++<10) printf("run %d: %s\n   history: %s\n",run,first.c_str(),hist.c_str()); dead=true; }
    } }
  printf("runs=%d ops=%ld\n",runs,ops); for(auto&p:kinds) printf("  %-60s %d\n",p.first.c_str(),p.second); }
