// Feasibility probe (scratch): allocation-failure injection (F3) during copies, chunked stream reads (F2).
#include <gudhi/Simplex_tree.h>
#include <gudhi/Matrix.h>
#include <gudhi/persistence_matrix_options.h>
#include <cstdio>
#include <cstdlib>
#include <new>
#include <sstream>
#include <streambuf>
static long g_countdown = -1; static long g_allocs = 0;   // -1: never fail
void* operator new(std::size_t n) { ++g_allocs; if (g_countdown >= 0 && g_countdown-- == 0) throw std::bad_alloc(); void* p = std::malloc(n ? n : 1); if (!p) throw std::bad_alloc(); return p; }
void* operator new(std::size_t n, const std::nothrow_t&) noexcept { ++g_allocs; if (g_countdown >= 0 && g_countdown-- == 0) return nullptr; return std::malloc(n ? n : 1); }
void* operator new[](std::size_t n) { return operator new(n); }
void* operator new[](std::size_t n, const std::nothrow_t& t) noexcept { return operator new(n, t); }
void operator delete[](void* p) noexcept { std::free(p); }
void operator delete[](void* p, std::size_t) noexcept { std::free(p); }
void operator delete(void* p, const std::nothrow_t&) noexcept { std::free(p); }
void operator delete(void* p) noexcept { std::free(p); }
void operator delete(void* p, std::size_t) noexcept { std::free(p); }
using namespace Gudhi; using namespace Gudhi::persistence_matrix;
struct Chunked : std::streambuf { std::string data; size_t pos = 0; unsigned seed; Chunked(std::string d, unsigned s) : data(std::move(d)), seed(s) {}
  int_type underflow() override { if (pos >= data.size()) return traits_type::eof(); seed = seed * 1103515245u + 12345u; size_t k = 1 + (seed >> 16) % 5; if (pos + k > data.size()) k = data.size() - pos; setg(&data[pos], &data[pos], &data[pos] + k); pos += k; return traits_type::to_int_type(*gptr()); } };
struct RUopt : Default_options<Column_types::INTRUSIVE_SET, true> { static const bool has_column_pairings = true; static const bool has_vine_update = true; static const bool has_row_access = true; static const bool has_removable_columns = true; };
template <class ST> void st_case(const char* name) { ST st; st.insert_simplex_and_subfaces({0,1,2,3}, 1.); st.insert_simplex_and_subfaces({3,4}, 2.); st.insert_simplex_and_subfaces({5}, 0.5);
  g_allocs = 0; { ST c(st); } long total = g_allocs; int thrown = 0, equal = 0;
  for (long k = 0; k < total; ++k) { g_countdown = k; try { ST c(st); } catch (std::bad_alloc&) { ++thrown; } g_countdown = -1; ST ref; ref.insert_simplex_and_subfaces({0,1,2,3}, 1.); ref.insert_simplex_and_subfaces({3,4}, 2.); ref.insert_simplex_and_subfaces({5}, 0.5); if (st == ref) ++equal; }
  // copy-assignment into a non-empty target
  int athrown = 0; for (long k = 0; k < total; ++k) { ST t; t.insert_simplex_and_subfaces({7,8}, 3.); g_countdown = k; try { t = st; } catch (std::bad_alloc&) { ++athrown; } g_countdown = -1; }
  printf("%s: copy needs %ld allocations; injected failures thrown=%d, source intact=%d/%ld; assign failures thrown=%d (targets destroyed without ASan report)\n", name, total, thrown, equal, total, athrown); }
int main() { setvbuf(stdout, nullptr, _IONBF, 0);
  st_case<Simplex_tree<>>("Simplex_tree<default>"); st_case<Simplex_tree<Simplex_tree_options_full_featured>>("Simplex_tree<full_featured>");
  { Matrix<RUopt> m(16); for (int i = 0; i < 4; ++i) m.insert_boundary(std::vector<unsigned>{}); m.insert_boundary(std::vector<unsigned>{0,1}); m.insert_boundary(std::vector<unsigned>{1,2}); m.insert_boundary(std::vector<unsigned>{0,2}); m.insert_boundary(std::vector<unsigned>{4,5,6});
    g_allocs = 0; { Matrix<RUopt> c(m); } long total = g_allocs; int thrown = 0; for (long k = 0; k < total; ++k) { g_countdown = k; try { Matrix<RUopt> c(m); } catch (std::bad_alloc&) { ++thrown; } g_countdown = -1; }
    printf("Matrix<RU,vine,rows>: copy needs %ld allocations; injected failures thrown=%d; source barcode size %zu\n", total, thrown, m.get_current_barcode().size()); }
  { Simplex_tree<> st; st.insert_simplex_and_subfaces({0,1,2}, 0.25); st.insert_simplex_and_subfaces({2,3}, 1.5); std::stringstream ss; ss << st; int ok = 0; for (unsigned s = 1; s <= 50; ++s) { Chunked cb(ss.str(), s); std::istream is(&cb); Simplex_tree<> t; is >> t; if (t == st) ++ok; } printf("chunked text round trip: %d/50 chunkings give an equal tree\n", ok); }
}
