#pragma once
#include <algorithm>
#include <random>
#include <vector>
#include <cstdint>
namespace verif_sim { extern uint64_t sort_seed; extern unsigned long sort_calls; extern unsigned long swo_violations;
template <class It, class Cmp> void sim_sort_rec(It b, It e, Cmp& c, std::mt19937_64& rng) {
  auto n = e - b; if (n < 2) return;
  if (n <= (long)(1 + rng() % 16)) { // insertion sort from a random end
    if (rng() & 1) { for (It i = b + 1; i != e; ++i) { auto v = *i; It j = i; while (j != b && c(v, *(j - 1))) { *j = *(j - 1); --j; } *j = v; } }
    else { for (It i = e - 1; i != b; ) { --i; auto v = *i; It j = i; while (j + 1 != e && c(*(j + 1), v)) { *j = *(j + 1); ++j; } *j = v; } }
    return; }
  std::iter_swap(b, b + rng() % n); auto pivot = *b; It lo = b + 1, hi = e;  // 3-way-less partition: [<pivot][>=pivot]
  while (lo < hi) { if (c(*lo, pivot)) ++lo; else { --hi; std::iter_swap(lo, hi); } }
  std::iter_swap(b, lo - 1);
  if (rng() & 1) { sim_sort_rec(b, lo - 1, c, rng); sim_sort_rec(lo, e, c, rng); } else { sim_sort_rec(lo, e, c, rng); sim_sort_rec(b, lo - 1, c, rng); } }
template <class It, class Cmp> void sim_sort(It b, It e, Cmp c) { ++sort_calls; std::mt19937_64 rng(sort_seed * 0x9e3779b97f4a7c15ull + sort_calls); std::shuffle(b, e, rng); sim_sort_rec(b, e, c, rng);
  auto n = e - b; if (n <= 256) for (long i = 0; i < n; ++i) { if (c(b[i], b[i])) ++swo_violations; for (long j = i + 1; j < n; ++j) if (c(b[j], b[i])) ++swo_violations; } } }
namespace tbb { template <class It, class Cmp> void parallel_sort(It b, It e, Cmp c) { verif_sim::sim_sort(b, e, c); }
template <class It> void parallel_sort(It b, It e) { verif_sim::sim_sort(b, e, std::less<>()); } }
