// Feasibility probe (scratch): RU / chain vine swaps vs rebuild-from-scratch barcode, truthfulness of return value,
// remove_last after swaps. Z2, simplicial complexes on 5 vertices.
#include <gudhi/Matrix.h>
#include <gudhi/persistence_matrix_options.h>
#include <cstdio>
#include <cstdint>
#include <map>
#include <set>
#include <random>
#include <algorithm>
#include <tuple>
using namespace Gudhi::persistence_matrix;
using u64 = uint64_t;
static const int NV = 5;
struct Pool { std::vector<int> vmask, dim; std::vector<u64> bd; std::map<int,int> idx; } P;
static void build_pool() { std::vector<int> masks; for (int m=1;m<(1<<NV);++m) masks.push_back(m);
  std::sort(masks.begin(),masks.end(),[](int a,int b){int pa=__builtin_popcount(a),pb=__builtin_popcount(b);return pa!=pb?pa<pb:a<b;});
  for(int m:masks){P.idx[m]=P.vmask.size();P.vmask.push_back(m);P.dim.push_back(__builtin_popcount(m)-1);} P.bd.assign(P.vmask.size(),0);
  for(size_t i=0;i<P.vmask.size();++i){int m=P.vmask[i]; if(P.dim[i]==0)continue; for(int v=0;v<NV;++v) if(m>>v&1) P.bd[i]|=1ull<<P.idx[m&~(1<<v)];}}
struct Bar { int dim; int b; int d; bool operator<(const Bar&o)const{return std::tie(dim,b,d)<std::tie(o.dim,o.b,o.d);} bool operator==(const Bar&o)const{return dim==o.dim&&b==o.b&&d==o.d;} };
// order: vector of pool indices in filtration order. returns barcode by position
static std::vector<Bar> reduce(const std::vector<int>& order) {
  int n=order.size(); std::map<int,int> pos; for(int i=0;i<n;++i) pos[order[i]]=i;
  std::vector<u64> R(n,0); std::vector<int> lowToCol(n,-1); std::vector<Bar> bars; std::vector<int> birthBar(n,-1);
  for(int j=0;j<n;++j){ u64 b=P.bd[order[j]]; u64 c=0; while(b){int i=__builtin_ctzll(b); b&=b-1; c|=1ull<<pos.at(i);} 
    while(c){ int l=63-__builtin_clzll(c); if(lowToCol[l]<0) break; c^=R[lowToCol[l]]; }
    R[j]=c; if(c){ int l=63-__builtin_clzll(c); lowToCol[l]=j; bars[birthBar[l]].d=j; } else { birthBar[j]=bars.size(); bars.push_back({P.dim[order[j]], j, -1}); } }
  std::sort(bars.begin(),bars.end()); return bars; }
template<class M> static std::vector<Bar> barcode_of(M& m){ std::vector<Bar> r; for (auto& b : m.get_current_barcode()) r.push_back({(int)b.dim,(int)b.birth, b.death==(unsigned)-1? -1 : (int)b.death}); std::sort(r.begin(),r.end()); return r; }
struct RUopt : Default_options<Column_types::INTRUSIVE_SET, true> { static const bool has_column_pairings=true; static const bool has_vine_update=true; static const bool has_removable_columns=true; };
struct CHopt : Default_options<Column_types::INTRUSIVE_SET, true> { static const bool has_column_pairings=true; static const bool has_vine_update=true; static const bool has_removable_columns=true; static const bool has_map_column_container=true; static const bool is_of_boundary_type=false; static const Column_indexation_types column_indexation_type = Column_indexation_types::POSITION; };
static void print(const char* t, const std::vector<Bar>& b){ printf(" %s:",t); for(auto&x:b) printf(" [%d]%d-%d",x.dim,x.b,x.d); printf("\n"); }
template<class Opt> int campaign(const char* name, int runs, unsigned seed0, bool do_remove) {
  int bad=0, swaps=0, trues=0, removes=0;
  for(int run=0;run<runs;++run){ std::mt19937 rng(seed0*7919u+run);
    // random filtration: insert cells whose faces are present
    std::vector<int> order; u64 K=0; int n=6+rng()%9;
    Matrix<Opt> m(40);
    auto insert_next=[&](){ std::vector<int> can; for(size_t i=0;i<P.vmask.size();++i) if(!(K>>i&1)&&(P.bd[i]&~K)==0) can.push_back(i); if(can.empty())return false; int c=can[rng()%can.size()];
      std::vector<unsigned> b; for(size_t j=0;j<order.size();++j) if(P.bd[c]>>order[j]&1) b.push_back(j); // positions == ids as long as we use position ids; after swaps ids!=positions for chain... use POSITION indexing => boundary expressed in...? ids. 
      return c>=0 && (order.push_back(c), K|=1ull<<c, true) && (m.insert_boundary(b, P.dim[c]), true); };
    (void)insert_next; // NOTE: only valid before any swap (ids == positions)
    for(int i=0;i<n;++i) if(!insert_next()) break;
    bool ok=true; auto expect=reduce(order); if(!(barcode_of(m)==expect)){ ok=false; if(bad<3){printf("%s run %d: initial barcode mismatch\n",name,run); print("got",barcode_of(m)); print("exp",expect);} }
    int steps=10+rng()%20;
    for(int s=0;s<steps&&ok;++s){ int N=order.size(); if(N<2)break;
      bool rem = do_remove && rng()%6==0;
      if(rem){ m.remove_last(); K&=~(1ull<<order.back()); order.pop_back(); ++removes; expect=reduce(order); auto got=barcode_of(m); if(!(got==expect)){ ok=false; if(bad<3){printf("%s run %d step %d: mismatch after remove_last\n",name,run,s); print("got",got); print("exp",expect);} } continue; }
      std::vector<int> adm; for(int i=0;i+1<N;++i) if(!(P.bd[order[i+1]]>>order[i]&1)) adm.push_back(i); if(adm.empty())break; int i=adm[rng()%adm.size()];
      auto before=barcode_of(m); bool ret=m.vine_swap((unsigned)i); ++swaps; trues+=ret; std::swap(order[i],order[i+1]); expect=reduce(order); auto got=barcode_of(m);
      if(!(got==expect)){ ok=false; if(bad<3){printf("%s run %d step %d: barcode mismatch after swap %d ret=%d\n",name,run,s,i,ret); print("got",got); print("exp",expect);} break; }
      // truthfulness
      auto exch=before; for(auto&b:exch){ if(b.b==i)b.b=i+1; else if(b.b==i+1)b.b=i; if(b.d==i)b.d=i+1; else if(b.d==i+1)b.d=i; } std::sort(exch.begin(),exch.end());
      bool claimOk = ret ? (expect==exch) : (expect==before);
      if(!claimOk){ ok=false; if(bad<3){printf("%s run %d step %d: return value %d untruthful at swap %d\n",name,run,s,ret,i); print("before",before); print("after",expect);} }
    }
    if(!ok)++bad; }
  printf("%s: runs=%d bad=%d swaps=%d (true=%d) removes=%d\n",name,runs,bad,swaps,trues,removes); return bad; }
int main(int argc,char**argv){ build_pool(); int runs=argc>1?atoi(argv[1]):500;
  campaign<RUopt>("RU/pos/no-remove",runs,1,false); campaign<RUopt>("RU/pos/remove_last",runs,2,true);
  campaign<CHopt>("chain/pos/no-remove",runs,3,false); campaign<CHopt>("chain/pos/remove_last",runs,4,true); }
