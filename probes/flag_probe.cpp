// Feasibility probe (scratch): flag expansion routes vs clique-complex model.
#include <gudhi/Simplex_tree.h>
#include <gudhi/graph_simplicial_complex.h>
#include <boost/graph/adjacency_list.hpp>
#include <cstdio>
#include <map>
#include <set>
#include <vector>
#include <random>
#include <algorithm>
#include <string>
using namespace Gudhi;
struct OptFC : Simplex_tree_options_default { static const bool link_nodes_by_label = true; };
struct OptFCS : OptFC { static const bool stable_simplex_handles = true; };
typedef std::vector<int> Sx; static const int NV=7;
template<class ST> std::map<Sx,double> dump(const ST& st){ std::map<Sx,double> r; for(auto sh: st.complex_simplex_range()){ Sx v; for(auto x: st.simplex_vertex_range(sh)) v.push_back(x); std::sort(v.begin(),v.end()); r[v]=st.filtration(sh);} return r; }
int main(int argc,char**argv){ int runs=argc>1?atoi(argv[1]):300; std::map<std::string,int> kinds; int shown=0;
  auto diff=[&](const std::string&k,int run){ if(kinds[k]++<1 && shown++<10) printf("run %d: %s\n",run,k.c_str()); };
  for(int run=0;run<runs;++run){ std::mt19937 rng(run*31u+1); int n=2+rng()%(NV-1); double vals[]={0,1,1,2,3,3,4};
    std::vector<double> vf(n); for(auto&x:vf) x=vals[rng()%3]; std::map<std::pair<int,int>,double> E; int dens=1+rng()%4;
    for(int i=0;i<n;++i) for(int j=i+1;j<n;++j) if((int)(rng()%5)<dens) E[{i,j}]=std::max({vf[i],vf[j],vals[rng()%7]});
    int dmax=rng()%5; // 0..4
    // model: cliques up to dmax+1 vertices
    std::map<Sx,double> M; for(int m=1;m<(1<<n);++m){ Sx s; for(int i=0;i<n;++i) if(m>>i&1) s.push_back(i); if((int)s.size()>std::max(dmax,1)+1) continue; bool cl=true; double f=0; for(int v:s) f=std::max(f,vf[v]); for(size_t a=0;a<s.size()&&cl;++a) for(size_t b=a+1;b<s.size();++b){ auto it=E.find({s[a],s[b]}); if(it==E.end()){cl=false;break;} f=std::max(f,it->second);} if(cl) M[s]=f; }
    // NOTE expansion(max_dim<=1) is a no-op: graph only => model above keeps edges when dmax<=1 (std::max(dmax,1))
    typedef boost::adjacency_list<boost::vecS,boost::vecS,boost::directedS, boost::property<vertex_filtration_t,double>, boost::property<edge_filtration_t,double>> G;
    std::vector<std::pair<int,int>> el; std::vector<double> ef; for(auto&e:E){ el.push_back(rng()%2? e.first : std::make_pair(e.first.second,e.first.first)); ef.push_back(e.second);} 
    // shuffle edges consistently
    std::vector<int> perm(el.size()); for(size_t i=0;i<perm.size();++i) perm[i]=i; std::shuffle(perm.begin(),perm.end(),rng); std::vector<std::pair<int,int>> el2; std::vector<double> ef2; for(int i:perm){ el2.push_back(el[i]); ef2.push_back(ef[i]); }
    G g(el2.begin(),el2.end(),ef2.begin(),n); for(int i=0;i<n;++i) boost::put(vertex_filtration_t(),g,i,vf[i]);
    { Simplex_tree<> st; st.insert_graph(g); st.expansion(dmax); if(dump(st)!=M) diff("route a (insert_graph+expansion) != model",run); if(st.dimension()!=(M.empty()?-1:(int)std::max_element(M.begin(),M.end(),[](auto&a,auto&b){return a.first.size()<b.first.size();})->first.size()-1)) diff("route a dimension()",run); }
    { Simplex_tree<> st; st.insert_graph(g); st.expansion_with_blockers(dmax,[](auto){return false;}); auto got=dump(st); if(got!=M){ diff("route b (expansion_with_blockers never) != model dmax="+std::to_string(dmax),run); static int sh=0; if(sh++<3){ printf("   dmax=%d n=%d\n",dmax,n); for(auto&p:M){ auto it=got.find(p.first); if(it==got.end()){ printf("   missing:"); for(int v:p.first) printf(" %d",v); printf(" f=%g\n",p.second);} else if(it->second!=p.second){ printf("   value:"); for(int v:p.first) printf(" %d",v); printf(" got %g exp %g\n",it->second,p.second);} } for(auto&p:got) if(!M.count(p.first)){ printf("   extra:"); for(int v:p.first) printf(" %d",v); printf(" f=%g\n",p.second);} } } }
    auto incremental=[&](auto& st,bool ordered,const char* nm){ std::vector<typename std::decay_t<decltype(st)>::Simplex_handle> added; std::map<Sx,double> before;
      struct Ev{double f;int u,v;}; std::vector<Ev> evs; for(int i=0;i<n;++i) evs.push_back({vf[i],i,i}); std::vector<Ev> ee; for(auto&e:E) ee.push_back({e.second,e.first.first,e.first.second});
      if(ordered){ evs.insert(evs.end(),ee.begin(),ee.end()); std::stable_sort(evs.begin(),evs.end(),[](const Ev&a,const Ev&b){ if(a.f!=b.f) return a.f<b.f; return (a.u==a.v)>(b.u==b.v);}); } else { std::shuffle(evs.begin(),evs.end(),rng); std::shuffle(ee.begin(),ee.end(),rng); evs.insert(evs.end(),ee.begin(),ee.end()); }
      int dm = dmax; for(auto&e:evs){ size_t k0=added.size(); st.insert_edge_as_flag(e.u,e.v,e.f,dm,added); auto after=dump(st); std::set<Sx> delta; for(size_t k=k0;k<added.size();++k){ Sx v; for(auto x: st.simplex_vertex_range(added[k])) v.push_back(x); std::sort(v.begin(),v.end()); if(!delta.insert(v).second) diff(std::string(nm)+": duplicate in added_simplices",run);} std::set<Sx> ex; for(auto&p:after) if(!before.count(p.first)) ex.insert(p.first); if(delta!=ex) diff(std::string(nm)+": added_simplices != created",run); before=after; }
      if(!ordered) st.make_filtration_non_decreasing();
      // model for dim_max: insert_edge_as_flag with dim_max 0 keeps edges? compare
      std::map<Sx,double> Md; for(auto&p:M) if((int)p.first.size()-1<=std::max(dm,0) || false) Md[p.first]=p.second; 
      auto got=dump(st); if(got!=Md){ std::string k=std::string(nm)+" != model (dmax="+std::to_string(dm)+")"; diff(k,run);} };
    { Simplex_tree<OptFC> st; incremental(st,true,"route c ordered/flat"); } { Simplex_tree<OptFCS> st; incremental(st,true,"route c ordered/stable"); }
    { Simplex_tree<OptFC> st; incremental(st,false,"route d unordered/flat"); } { Simplex_tree<OptFCS> st; incremental(st,false,"route d unordered/stable"); }
  }
  printf("runs=%d\n",runs); for(auto&p:kinds) printf("  %-70s %d\n",p.first.c_str(),p.second); }
