#include <gudhi/Simplex_tree.h>
#include <gudhi/Matrix.h>
#include <gudhi/persistence_matrix_options.h>
#include <cstdio>
#include <cstring>
#include <sstream>
#include <limits>
using namespace Gudhi; using namespace Gudhi::persistence_matrix;
struct CompOpt : Default_options<Column_types::INTRUSIVE_SET, true> { static const bool has_column_compression = true; };
struct ChainVine : Default_options<Column_types::INTRUSIVE_SET, true> { static const bool has_column_pairings=true; static const bool has_vine_update=true; static const bool is_of_boundary_type=false; };
int main(int argc, char** argv) { int which = argc>1? atoi(argv[1]) : 0; setvbuf(stdout,nullptr,_IONBF,0);
  if (which==1) { Simplex_tree<> st; st.insert_simplex_and_subfaces({0,1,2},1.); st.insert_simplex_and_subfaces({2,3},2.); size_t n=st.get_serialization_size(); char* full=new char[n]; st.serialize(full,n);
    size_t k=n-3; char* cut=new char[k]; memcpy(cut,full,k); Simplex_tree<> t; try { t.deserialize(cut,k); puts("no exception"); } catch(std::invalid_argument&){ puts("invalid_argument thrown"); } }
  if (which==2) { Matrix<CompOpt> m; m.insert_column(std::vector<unsigned>{0,1}); m.insert_column(std::vector<unsigned>{}); puts("compressed: add nonzero column onto zero column"); m.add_to(0u,1u); auto c=m.get_column(1).get_content(2); printf("col1 = %u %u\n",(unsigned)c[0],(unsigned)c[1]); }
  if (which==3) { Matrix<ChainVine> a(8), b(8); a.insert_boundary(std::vector<unsigned>{}); a.insert_boundary(std::vector<unsigned>{}); a.insert_boundary(std::vector<unsigned>{0,1}); puts("chain/vine copy-assign"); b = a; printf("b columns=%u barcode size=%zu\n", b.get_number_of_columns(), b.get_current_barcode().size()); }
  if (which==4) { typedef Matrix<Default_options<Column_types::INTRUSIVE_SET,true>> M; M a; a.insert_column(std::vector<unsigned>{0,1}); M b(std::move(a)); printf("moved-from columns=%u\n", a.get_number_of_columns()); puts("insert into moved-from"); a.insert_column(std::vector<unsigned>{1}); printf("ok columns=%u\n", a.get_number_of_columns()); }
  if (which==5) { Simplex_tree<> st; st.insert_simplex({0}, std::numeric_limits<double>::infinity()); st.insert_simplex({1}, 1.5); std::stringstream ss; ss<<st; Simplex_tree<> t; ss>>t; printf("text: wrote %zu simplices, re-read %zu; text was:\n%s", st.num_simplices(), t.num_simplices(), ss.str().c_str()); }
  if (which==6) { Simplex_tree<> st; st.insert_simplex_and_subfaces({0,1,2},1.); st.remove_maximal_simplex(st.find({0,1,2})); Simplex_tree<> c(st); printf("source dim=%d copy dim=%d (true 1)\n", st.dimension(), c.dimension()); Simplex_tree<> d; { Simplex_tree<> s2; s2.insert_simplex_and_subfaces({0,1,2},1.); s2.remove_maximal_simplex(s2.find({0,1,2})); d = s2; } printf("copy-assigned (source not queried) dim=%d ub=%d (true 1)\n", d.dimension(), d.upper_bound_dimension()); }
}
