// Feasibility probe (scratch): Toplex_map and Lazy_toplex_map vs abstract complex model.
#include <gudhi/Toplex_map.h>
#include <gudhi/Lazy_toplex_map.h>
#include <cstdio>
#include <set>
#include <map>
#include <vector>
#include <random>
#include <string>
using namespace Gudhi;
static const int NV=6; typedef std::vector<std::size_t> V;
static V vec(int m){ V v; for(int i=0;i<NV;++i) if(m>>i&1) v.push_back(10+3*i); return v; }
struct Model { std::set<int> K; void ins(int m){ for(int f=m;f;f=(f-1)&m) K.insert(f);} void rem(int m){ for(auto it=K.begin();it!=K.end();) if((*it&m)==m) it=K.erase(it); else ++it; }
  bool maximal(int m) const { for(int x:K) if(x!=m && (x&m)==m) return false; return K.count(m); } };
int main(int argc,char**argv){ int runs=argc>1?atoi(argv[1]):300; bool nonmax=argc>2; std::map<std::string,int> kinds; int shown=0; long ops=0;
  for(int run=0;run<runs;++run){ std::mt19937 rng(run*7u+3); Toplex_map t; Lazy_toplex_map l; Model m; std::string hist; bool dead=false;
    int steps=4+rng()%30;
    for(int s=0;s<steps&&!dead;++s){ ++ops; int k=rng()%12; char buf[64]; std::string op;
      if(k<6){ int x=1+rng()%((1<<NV)-1); if(__builtin_popcount(x)>4) continue; t.insert_simplex(vec(x)); l.insert_simplex(vec(x)); m.ins(x); snprintf(buf,64,"ins(%#x) ",x); op=buf; }
      else if(k<8){ std::vector<int> c; for(int x:m.K) if(nonmax || m.maximal(x)) c.push_back(x); if(c.empty())continue; int x=c[rng()%c.size()]; t.remove_simplex(vec(x)); l.remove_simplex(vec(x)); m.rem(x); snprintf(buf,64,"rem(%#x%s) ",x,m.maximal(x)?"":""); op=buf; }
      else if(k<10){ std::vector<int> vs; for(int v=0;v<NV;++v) if(m.K.count(1<<v)) vs.push_back(v); if(vs.empty())continue; int v=vs[rng()%vs.size()]; t.remove_vertex(10+3*v); m.rem(1<<v); l.remove_simplex(vec(1<<v)); snprintf(buf,64,"remv(%d) ",v); op=buf; }
      else { std::vector<int> vs; for(int v=0;v<NV;++v) if(m.K.count(1<<v)) vs.push_back(v); if(vs.size()<2)continue; int a=vs[rng()%vs.size()], b=vs[rng()%vs.size()]; if(a==b)continue; auto kt=t.contraction(10+3*a,10+3*b); int keep=(int(kt)-10)/3, drop=keep==a?b:a; std::set<int> img; for(int x:m.K){ int y=x; if(y>>drop&1){ y&=~(1<<drop); y|=1<<keep;} img.insert(y);} m.K=img;
             // lazy: replay same orientation? lazy chooses by its own sizes; apply and compare only membership up to its own returned vertex
             auto kl=l.contraction(10+3*a,10+3*b); if(kl!=kt){ kinds["lazy contraction keeps another vertex (not comparable)"]++; dead=true; continue; }
             snprintf(buf,64,"contract(%d,%d->%d) ",a,b,keep); op=buf; }
      hist+=op; std::string first;
      for(int x=1;x<(1<<NV)&&first.empty();++x){ if(t.membership(vec(x))!=(bool)m.K.count(x)) first="eager membership"; else if(l.membership(vec(x))!=(bool)m.K.count(x)) first="lazy membership"; else if(t.maximality(vec(x))!=m.maximal(x)) first="eager maximality"; }
      if(first.empty()){ size_t nm=0; for(int x:m.K) if(m.maximal(x)) ++nm; if(t.num_maximal_simplices()!=nm) first="eager num_maximal"; size_t nv=0; for(int v=0;v<NV;++v) nv+=m.K.count(1<<v); if(first.empty() && t.num_vertices()!=nv) first="eager num_vertices"; if(first.empty() && l.num_vertices()!=nv) first="lazy num_vertices"; }
      if(!first.empty()){ std::string key=first+" after "+op.substr(0,op.find('(')); if(kinds[key]++<1 && shown++<12) printf("run %d: %s\n   history: %s\n",run,key.c_str(),hist.c_str()); dead=true; }
    } }
  printf("runs=%d ops=%ld nonmax=%d\n",runs,ops,(int)nonmax); for(auto&p:kinds) printf("  %-60s %d\n",p.first.c_str(),p.second); }
