// Feasibility probe (scratch): RU / chain identities and representative cycles, Z2 and Z5, simplicial.
#include <gudhi/Matrix.h>
#include <gudhi/persistence_matrix_options.h>
#include <cstdio>
#include <map>
#include <vector>
#include <random>
#include <algorithm>
#include <string>
using namespace Gudhi::persistence_matrix;
static const int NV=5;
struct Cell { int mask; int dim; std::vector<std::pair<int,int>> bd; }; // bd: (pool idx, sign +1/-1)
static std::vector<Cell> pool; static std::map<int,int> idxOf;
static void build_pool(){ std::vector<int> masks; for(int m=1;m<(1<<NV);++m) masks.push_back(m); std::sort(masks.begin(),masks.end(),[](int a,int b){int pa=__builtin_popcount(a),pb=__builtin_popcount(b);return pa!=pb?pa<pb:a<b;}); for(int m:masks){ idxOf[m]=pool.size(); pool.push_back({m,__builtin_popcount(m)-1,{}});} for(auto&c:pool){ if(c.dim==0)continue; int i=0; for(int v=0;v<NV;++v) if(c.mask>>v&1){ c.bd.push_back({idxOf[c.mask&~(1<<v)], (i%2==0)?1:-1}); ++i; } } }
typedef std::vector<std::vector<long>> Mat; // Mat[col][row]
template<bool z2> struct RUopt : Default_options<Column_types::INTRUSIVE_SET, z2> { static const bool has_column_pairings=true; static const bool can_retrieve_representative_cycles=true; static const bool has_removable_columns=true; };
template<bool z2> struct CHopt : Default_options<Column_types::INTRUSIVE_SET, z2> { static const bool has_column_pairings=true; static const bool can_retrieve_representative_cycles=true; static const bool is_of_boundary_type=false; };
static long md(long a,long p){ a%=p; if(a<0)a+=p; return a; }
static Mat mul(const Mat&A,const Mat&B,long p){ int n=A.size(); Mat C(n,std::vector<long>(n,0)); for(int j=0;j<n;++j) for(int k=0;k<n;++k) if(B[j][k]) for(int i=0;i<n;++i) C[j][i]=md(C[j][i]+A[k][i]*B[j][k],p); return C; } // column j of C = A * (column j of B)
static Mat transpose(const Mat&A){ int n=A.size(); Mat T(n,std::vector<long>(n,0)); for(int j=0;j<n;++j) for(int i=0;i<n;++i) T[i][j]=A[j][i]; return T; }
static bool in_span(std::vector<std::vector<long>> gens, std::vector<long> v, long p){ // gaussian elimination over Z_p
  int n=v.size(); std::vector<std::vector<long>> basis; auto inv=[&](long a){ for(long x=1;x<p;++x) if(md(a*x,p)==1) return x; return 0L; };
  auto reduce=[&](std::vector<long>& w){ for(auto&b:basis){ int piv=-1; for(int i=n-1;i>=0;--i) if(b[i]){piv=i;break;} if(w[piv]){ long c=md(w[piv]*inv(b[piv]),p); for(int i=0;i<n;++i) w[i]=md(w[i]-c*b[i],p);} } };
  for(auto g:gens){ // keep basis in "distinct pivot" form by full reduction each time
    bool ch=true; while(ch){ ch=false; for(auto&b:basis){ int piv=-1; for(int i=n-1;i>=0;--i) if(b[i]){piv=i;break;} int gp=-1; for(int i=n-1;i>=0;--i) if(g[i]){gp=i;break;} if(gp==piv&&gp>=0){ long c=md(g[piv]*inv(b[piv]),p); for(int i=0;i<n;++i) g[i]=md(g[i]-c*b[i],p); ch=true; } } } bool nz=false; for(long x:g) if(x) nz=true; if(nz) basis.push_back(g); }
  bool ch=true; while(ch){ ch=false; int vp=-1; for(int i=n-1;i>=0;--i) if(v[i]){vp=i;break;} if(vp<0) return true; for(auto&b:basis){ int piv=-1; for(int i=n-1;i>=0;--i) if(b[i]){piv=i;break;} if(piv==vp){ long c=md(v[vp]*inv(b[piv]),p); for(int i=0;i<n;++i) v[i]=md(v[i]-c*b[i],p); ch=true; break; } } }
  for(long x:v) if(x) return false; return true; }
template<bool z2> int run_ru(int runs,std::map<std::string,int>& kinds){ const long p=z2?2:5; const char* tag=z2?"RU/Z2":"RU/Z5"; int shown=0;
  for(int run=0;run<runs;++run){ std::mt19937 rng(run*131u+9); int n=5+rng()%10; std::vector<int> order; unsigned long K=0;
    Matrix<RUopt<z2>> m(32, 5);
    Mat B;
    for(int i=0;i<n;++i){ std::vector<int> can; for(size_t c=0;c<pool.size();++c) if(!(K>>c&1)){ bool ok=true; for(auto&f:pool[c].bd) if(!(K>>f.first&1)) ok=false; if(ok) can.push_back(c);} if(can.empty())break; int c=can[rng()%can.size()]; std::vector<std::pair<unsigned,unsigned>> bz; std::vector<unsigned> b2; std::vector<std::pair<int,int>> tmp; for(auto&f:pool[c].bd){ int pos=std::find(order.begin(),order.end(),f.first)-order.begin(); tmp.push_back({pos,f.second}); } std::sort(tmp.begin(),tmp.end()); for(auto&t:tmp){ b2.push_back(t.first); bz.push_back({(unsigned)t.first,(unsigned)md(t.second,p)}); }
      if constexpr(z2) m.insert_boundary(b2, pool[c].dim); else m.insert_boundary(bz, pool[c].dim); order.push_back(c); K|=1ul<<c; }
    int N=order.size(); B.assign(N,std::vector<long>(N,0)); for(int j=0;j<N;++j) for(auto&f:pool[order[j]].bd){ int pos=std::find(order.begin(),order.end(),f.first)-order.begin(); B[j][pos]=md(f.second,p);} 
    Mat R(N,std::vector<long>(N,0)),U(N,std::vector<long>(N,0)); for(int j=0;j<N;++j){ auto cr=m.get_column(j,true).get_content(N); auto cu=m.get_column(j,false).get_content(N); for(int i=0;i<N;++i){ R[j][i]=cr[i]; U[j][i]=cu[i]; } }
    // identities
    bool f1 = (mul(R, transpose(U), p)==B); bool f2 = (mul(B, U, p)==R); bool f3 = (mul(R,U,p)==B);
    std::string which = f1? "B=R*U^T(stored)" : f2? "B*U(stored)=R" : f3? "B=R*U(stored)" : "NONE"; kinds[std::string(tag)+": factorisation form "+which]++;
    // representative cycles
    m.update_representative_cycles(); const auto& cyc=m.get_representative_cycles(); const auto& bc=m.get_current_barcode();
    for(const auto& bar: bc){ const auto& z=m.get_representative_cycle(bar); std::vector<long> zc(N,0); for(auto r: z) zc[r]=1; // coefficients unknown for Zp (Cycle = row indices only)
      // boundary of z (Z2 only meaningful)
      if(z2){ std::vector<long> dz(N,0); for(int j=0;j<N;++j) if(zc[j]) for(int i=0;i<N;++i) dz[i]=md(dz[i]+B[j][i],p); bool cyc0=true; for(long x:dz) if(x) cyc0=false; bool youngest = !z.empty() && (int)*std::max_element(z.begin(),z.end())==(int)bar.birth; std::string k=std::string(tag)+": rep cycle "+(cyc0?"is a cycle":"NOT a cycle")+(youngest?"":" / youngest!=birth"); if(kinds[k]++<1 && !cyc0 && shown++<2){ printf("%s run %d: bar [%d] %u-%d cycle:",tag,run,(int)bar.dim,bar.birth,(int)bar.death); for(auto r:z) printf(" %u",r); printf("\n"); } } }
  } return 0; }
template<bool z2> int run_chain(int runs,std::map<std::string,int>& kinds){ const long p=z2?2:5; const char* tag=z2?"chain/Z2":"chain/Z5";
  for(int run=0;run<runs;++run){ std::mt19937 rng(run*131u+9); int n=5+rng()%10; std::vector<int> order; unsigned long K=0; Matrix<CHopt<z2>> m(32,5);
    for(int i=0;i<n;++i){ std::vector<int> can; for(size_t c=0;c<pool.size();++c) if(!(K>>c&1)){ bool ok=true; for(auto&f:pool[c].bd) if(!(K>>f.first&1)) ok=false; if(ok) can.push_back(c);} if(can.empty())break; int c=can[rng()%can.size()]; std::vector<std::pair<unsigned,unsigned>> bz; std::vector<unsigned> b2; std::vector<std::pair<int,int>> tmp; for(auto&f:pool[c].bd){ int pos=std::find(order.begin(),order.end(),f.first)-order.begin(); tmp.push_back({pos,f.second}); } std::sort(tmp.begin(),tmp.end()); for(auto&t:tmp){ b2.push_back(t.first); bz.push_back({(unsigned)t.first,(unsigned)md(t.second,p)}); }
      if constexpr(z2) m.insert_boundary(b2, pool[c].dim); else m.insert_boundary(bz, pool[c].dim); order.push_back(c); K|=1ul<<c; }
    int N=order.size(); Mat B(N,std::vector<long>(N,0)); for(int j=0;j<N;++j) for(auto&f:pool[order[j]].bd){ int pos=std::find(order.begin(),order.end(),f.first)-order.begin(); B[j][pos]=md(f.second,p);} 
    // chain columns
    Mat C(N,std::vector<long>(N,0)); for(int j=0;j<N;++j){ auto cc=m.get_column(j).get_content(N); for(int i=0;i<N;++i) C[j][i]=cc[i]; }
    std::vector<int> piv(N); bool distinct=true; std::vector<char> seen(N,0); for(int j=0;j<N;++j){ piv[j]=m.get_pivot(j); if(seen[piv[j]]) distinct=false; seen[piv[j]]=1; } kinds[std::string(tag)+(distinct?": pivots distinct":": pivots NOT distinct")]++;
    for(int j=0;j<N;++j){ auto& col=m.get_column(j); std::vector<long> d(N,0); for(int k=0;k<N;++k) if(C[j][k]) for(int i=0;i<N;++i) d[i]=md(d[i]+C[j][k]*B[k][i],p); bool zero=true; for(long x:d) if(x) zero=false;
      if(!col.is_paired()){ kinds[std::string(tag)+(zero?": unpaired column is a cycle":": unpaired column NOT a cycle")]++; }
      else { int q=col.get_paired_chain_index(); bool isH = piv[j] > piv[q]; if(isH){ // boundary of H column should be multiple of partner
          bool mult=false; for(long c=1;c<p;++c){ bool eq=true; for(int i=0;i<N;++i) if(d[i]!=md(c*C[q][i],p)) eq=false; if(eq) mult=true; } kinds[std::string(tag)+(mult?": d(H col) = c * partner":": d(H col) NOT multiple of partner")]++; }
        else kinds[std::string(tag)+(zero?": G column is a cycle":": G column NOT a cycle")]++; } }
  } return 0; }
int main(int argc,char**argv){ build_pool(); int runs=argc>1?atoi(argv[1]):200; std::map<std::string,int> kinds; run_ru<true>(runs,kinds); run_ru<false>(runs,kinds); run_chain<true>(runs,kinds); run_chain<false>(runs,kinds); for(auto&p:kinds) printf("  %-60s %d\n",p.first.c_str(),p.second); }
