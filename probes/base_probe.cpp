// Feasibility probe (scratch): base Matrix (Zp, p=5 / Z2) vs dense model for all 9 column types.
#include <gudhi/Matrix.h>
#include <gudhi/persistence_matrix_options.h>
#include <cstdio>
#include <map>
#include <vector>
#include <random>
#include <string>
using namespace Gudhi::persistence_matrix;
template <Column_types ct, bool z2> struct Opt : Default_options<ct, z2> {};
static const unsigned NR = 7;
template <Column_types ct, bool z2> void campaign(const char* name, int runs, std::map<std::string,int>& kinds) {
  const unsigned p = z2 ? 2 : 5; int shown = 0;
  for (int run = 0; run < runs; ++run) { std::mt19937 rng(run * 99991u + 7);
    Matrix<Opt<ct, z2>> m(0, 5); std::vector<std::vector<unsigned>> M; std::string hist; bool dead = false;
    int steps = 5 + rng() % 30;
    for (int s = 0; s < steps && !dead; ++s) { int k = rng() % 16; char buf[80]; std::string op;
      unsigned n = M.size();
      auto randcol = [&]() { std::vector<unsigned> c(NR, 0); int dens = rng() % 4; for (unsigned r = 0; r < NR; ++r) if ((int)(rng() % 4) < dens) c[r] = 1 + rng() % (p - 1); return c; };
      if (k < 4 || n < 2) { auto c = randcol();
        if constexpr (z2) { std::vector<unsigned> e; for (unsigned r = 0; r < NR; ++r) if (c[r]) e.push_back(r); m.insert_column(e); }
        else { std::vector<std::pair<unsigned, unsigned>> e; for (unsigned r = 0; r < NR; ++r) if (c[r]) e.push_back({r, c[r]}); m.insert_column(e); }
        M.push_back(c); op = "ins ";
      } else { unsigned i = rng() % n, j = rng() % n; int coef = (int)(rng() % (p + 2)); unsigned cf = coef % p;
        if (k < 7) { if (i == j) continue; m.add_to(i, j); for (unsigned r = 0; r < NR; ++r) M[j][r] = (M[j][r] + M[i][r]) % p; snprintf(buf, 80, "add(%u->%u) ", i, j); op = buf; }
        else if (k < 10) { if (z2 || i == j) continue; m.multiply_target_and_add_to(i, coef, j); for (unsigned r = 0; r < NR; ++r) M[j][r] = (M[j][r] * cf + M[i][r]) % p; snprintf(buf, 80, "mta(%u,c=%d,%u) ", i, coef, j); op = buf; }
        else if (k < 13) { if (z2 || i == j) continue; m.multiply_source_and_add_to(coef, i, j); for (unsigned r = 0; r < NR; ++r) M[j][r] = (M[j][r] + cf * M[i][r]) % p; snprintf(buf, 80, "msa(c=%d,%u,%u) ", coef, i, j); op = buf; }
        else if (k < 15) { unsigned r = rng() % NR; bool present = M[j][r] != 0; m.zero_entry(j, r); M[j][r] = 0; snprintf(buf, 80, "zero_entry(%u,%u,%s) ", j, r, present ? "present" : "absent"); op = buf; }
        else { m.zero_column(j); M[j].assign(NR, 0); snprintf(buf, 80, "zero_col(%u) ", j); op = buf; } }
      hist += op; std::string first;
      for (unsigned c = 0; c < M.size() && first.empty(); ++c) { auto got = m.get_column(c).get_content(NR); for (unsigned r = 0; r < NR; ++r) if ((unsigned)got[r] != M[c][r]) first = "content"; bool z = true; for (unsigned r = 0; r < NR; ++r) { if (M[c][r]) z = false; if (first.empty() && m.is_zero_entry(c, r) != (M[c][r] == 0)) first = "is_zero_entry"; } if (first.empty() && m.is_zero_column(c) != z) first = "is_zero_column"; }
      if (first.empty() && m.get_number_of_columns() != M.size()) first = "ncols";
      if (!first.empty()) { std::string key = std::string(name) + ": " + first + " after " + op.substr(0, op.find('(')) + (op.find("absent") != std::string::npos ? "(absent)" : "") ; if (kinds[key]++ < 1 && shown++ < 3) printf("%s run %d: %s\n   history: %s\n", name, run, key.c_str(), hist.c_str()); dead = true; } } } }
int main(int argc, char** argv) { int runs = argc > 1 ? atoi(argv[1]) : 200; const char* only = argc>2? argv[2]:nullptr; setvbuf(stdout,nullptr,_IONBF,0); std::map<std::string,int> kinds;
#define BOTH(CT) if(!only||std::string(only)==#CT){ campaign<Column_types::CT, false>(#CT "/Z5", runs, kinds); campaign<Column_types::CT, true>(#CT "/Z2", runs, kinds);}
  BOTH(LIST) BOTH(SET) BOTH(HEAP) BOTH(VECTOR) BOTH(NAIVE_VECTOR) BOTH(SMALL_VECTOR) BOTH(UNORDERED_SET) BOTH(INTRUSIVE_LIST) BOTH(INTRUSIVE_SET)
  printf("runs per config=%d\n", runs); for (auto& p : kinds) printf("  %-60s %d\n", p.first.c_str(), p.second); }
