// Feasibility probe (scratch): Simplex_tree vs abstract-complex model on random histories, several option sets.
#include <gudhi/Simplex_tree.h>
#include <cstdio>
#include <map>
#include <set>
#include <vector>
#include <random>
#include <algorithm>
#include <string>
#include <sstream>
using namespace Gudhi;
typedef std::vector<int> Sx;
struct Opt_fast_cofaces : Simplex_tree_options_default { static const bool link_nodes_by_label = true; };
struct Opt_stable : Simplex_tree_options_default { static const bool stable_simplex_handles = true; };
static std::vector<int> LABELS = {2,3,5,8,13,21};
struct Model { std::map<Sx,double> s;
  bool has(const Sx& x) const { return s.count(x); }
  static std::vector<Sx> faces(const Sx& x) { std::vector<Sx> r; int n=x.size(); for (int m=1;m<(1<<n)-1;++m){ Sx f; for(int i=0;i<n;++i) if(m>>i&1) f.push_back(x[i]); r.push_back(f);} return r; }
  static bool subset(const Sx&a,const Sx&b){ return std::includes(b.begin(),b.end(),a.begin(),a.end()); }
  int dim() const { int d=-1; for(auto&p:s) d=std::max(d,(int)p.first.size()-1); return d; }
  std::vector<Sx> cofaces(const Sx& x,int codim) const { std::vector<Sx> r; for(auto&p:s) if(subset(x,p.first) && (codim==0 || (int)p.first.size()==(int)x.size()+codim)) r.push_back(p.first); return r; }
  bool maximal(const Sx&x) const { for(auto&p:s) if(p.first!=x && subset(x,p.first)) return false; return true; }
};
static std::string str(const Sx&x){ std::ostringstream o; o<<"{"; for(size_t i=0;i<x.size();++i) o<<(i?",":"")<<x[i]; o<<"}"; return o.str(); }
template<class ST> static Sx verts(const ST& st, typename ST::Simplex_handle sh){ Sx v; for(auto x: st.simplex_vertex_range(sh)) v.push_back(x); std::sort(v.begin(),v.end()); return v; }
struct Diff { std::map<std::string,int> kinds; int total=0; void add(const std::string&k,const std::string& detail){ if(kinds[k]++<2) printf("   DIFF %s : %s\n",k.c_str(),detail.c_str()); ++total; } };
template<class ST> static void audit(const char* cfg, const ST& st, const Model& m, Diff& d) {
  // find on all subsets
  int n=LABELS.size(); for(int mask=1;mask<(1<<n);++mask){ Sx x; for(int i=0;i<n;++i) if(mask>>i&1) x.push_back(LABELS[i]); auto sh=st.find(x); bool in=sh!=st.null_simplex(); if(in!=m.has(x)) d.add(std::string(cfg)+":find", str(x)); else if(in && ST::Options::store_filtration && st.filtration(sh)!=m.s.at(x)) d.add(std::string(cfg)+":filtration", str(x)); }
  std::multiset<Sx> all; for(auto sh: st.complex_simplex_range()) all.insert(verts(st,sh)); std::multiset<Sx> exp; for(auto&p:m.s) exp.insert(p.first); if(all!=exp) d.add(std::string(cfg)+":complex_simplex_range","");
  if(st.num_simplices()!=m.s.size()) d.add(std::string(cfg)+":num_simplices","");
  if(st.dimension()!=m.dim()) d.add(std::string(cfg)+":dimension", std::to_string(st.dimension())+" vs "+std::to_string(m.dim()));
  if(st.upper_bound_dimension()<m.dim()) d.add(std::string(cfg)+":upper_bound","");
  for(auto&p:m.s){ auto sh=st.find(p.first); if(sh==st.null_simplex()) continue; if(st.dimension(sh)!=(int)p.first.size()-1) d.add(std::string(cfg)+":dimension(sh)",str(p.first));
    for(int c=0;c<=3;++c){ std::multiset<Sx> got; for(auto ch: st.cofaces_simplex_range(sh,c)) got.insert(verts(st,ch)); auto e=m.cofaces(p.first,c); std::multiset<Sx> ex(e.begin(),e.end()); if(got!=ex) d.add(std::string(cfg)+":cofaces codim "+std::to_string(c), str(p.first)+" got "+std::to_string(got.size())+" exp "+std::to_string(ex.size())); }
    std::multiset<Sx> gb; for(auto b: st.boundary_simplex_range(sh)) gb.insert(verts(st,b)); std::multiset<Sx> eb; if(p.first.size()>1) for(size_t i=0;i<p.first.size();++i){ Sx f=p.first; f.erase(f.begin()+i); eb.insert(f);} if(gb!=eb) d.add(std::string(cfg)+":boundary",str(p.first)); }
  auto byd=st.num_simplices_by_dimension(); std::vector<size_t> eb(m.dim()+1,0); for(auto&p:m.s) eb[p.first.size()-1]++; if(byd!=eb) d.add(std::string(cfg)+":num_by_dim","");
}
template<class... STs> struct Runner;
int main(int argc,char**argv){ int runs=argc>1?atoi(argv[1]):300; Diff d; long ops=0;
  for(int run=0;run<runs;++run){ std::mt19937 rng(run*2654435761u+17);
    Simplex_tree<> a; Simplex_tree<Simplex_tree_options_full_featured> b; Simplex_tree<Opt_fast_cofaces> c; Simplex_tree<Opt_stable> e; Model m;
    auto each=[&](auto f){ f(a); f(b); f(c); f(e); };
    int steps=5+rng()%40; double vals[]={0,0.5,1,1,2,3};
    for(int s=0;s<steps;++s){ ++ops; int k=rng()%20;
      if(k<9){ // insert_simplex_and_subfaces
        Sx x; int n=1+rng()%4; std::vector<int> l=LABELS; std::shuffle(l.begin(),l.end(),rng); x.assign(l.begin(),l.begin()+n); double f=vals[rng()%6]; Sx xs=x; std::sort(xs.begin(),xs.end());
        // keep monotone: f must be >= nothing in particular (faces lowered to min). OK per analysis.
        each([&](auto& st){ st.insert_simplex_and_subfaces(x,f); });
        auto upd=[&](const Sx& y){ auto it=m.s.find(y); if(it==m.s.end()) m.s[y]=f; else it->second=std::min(it->second,f); }; for(auto&y:Model::faces(xs)) upd(y); upd(xs);
      } else if(k<12){ // insert_simplex with all facets present and f >= facets
        std::vector<Sx> cand; int n=LABELS.size(); for(int mask=1;mask<(1<<n);++mask){ Sx x; for(int i=0;i<n;++i) if(mask>>i&1) x.push_back(LABELS[i]); if(x.size()>4) continue; bool ok=true; if(x.size()>1) for(size_t i=0;i<x.size();++i){ Sx f=x; f.erase(f.begin()+i); if(!m.has(f)) ok=false;} if(ok) cand.push_back(x);} if(cand.empty()) continue; Sx x=cand[rng()%cand.size()];
        double lo=0; for(auto&y:Model::faces(x)) lo=std::max(lo,m.s.at(y)); double f=lo+vals[rng()%6]; Sx xp=x; std::shuffle(xp.begin(),xp.end(),rng);
        bool isnew=!m.has(x); double old=isnew?0:m.s[x];
        each([&](auto& st){ auto r=st.insert_simplex(xp,f); if(r.second!=isnew) d.add("insert_simplex:bool",str(x)); if(!isnew && ((r.first!=st.null_simplex()) != (f<old))) d.add("insert_simplex:handle-nullness",str(x)); });
        if(isnew) m.s[x]=f; else m.s[x]=std::min(old,f);
      } else if(k<15){ // remove maximal
        std::vector<Sx> mx; for(auto&p:m.s) if(m.maximal(p.first)) mx.push_back(p.first); if(mx.empty()) continue; Sx x=mx[rng()%mx.size()]; each([&](auto& st){ st.remove_maximal_simplex(st.find(x)); }); m.s.erase(x);
      } else if(k<17){ double t=vals[rng()%6]; bool any=false; for(auto it=m.s.begin();it!=m.s.end();){ if(t<it->second){ it=m.s.erase(it); any=true;} else ++it; } each([&](auto& st){ bool r=st.prune_above_filtration(t); if(r!=any) d.add("prune_above_filtration:return",""); });
      } else if(k<19){ int dd=(int)(rng()%5)-1; bool any=false; for(auto it=m.s.begin();it!=m.s.end();){ if((int)it->first.size()-1>dd){ it=m.s.erase(it); any=true;} else ++it; } each([&](auto& st){ bool r=st.prune_above_dimension(dd); if(r!=any) d.add("prune_above_dimension:return","d="+std::to_string(dd)); });
      } else { each([&](auto& st){ st.clear(); }); m.s.clear(); }
      if(rng()%3==0){ int before=d.total; audit("default",a,m,d); audit("full",b,m,d); audit("fastcof",c,m,d); audit("stable",e,m,d); if(!(a==b)||!(a==c)||!(a==e)) d.add("operator== across configs",""); if(d.total>before && d.total-before>0 && before==0) printf("   (first diffs at run %d step %d)\n",run,s); }
    } }
  printf("runs=%d ops=%ld total_diffs=%d\n",runs,ops,d.total); for(auto&p:d.kinds) printf("  %-45s %d\n",p.first.c_str(),p.second); }
