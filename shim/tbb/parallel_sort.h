// Seam S1: shadows <tbb/parallel_sort.h>. GUDHI's real `#ifdef GUDHI_USE_TBB` code paths run unchanged; only the TBB primitive
// is replaced by sim::sort, whose comparison schedule (input permutation, pivot choice, order in which the two halves are
// processed, leaf size and insertion direction) is a pure function of (sim_sort::seed, per-run call counter). While sorting it
// checks that the comparator behaves as a strict weak order on what it is shown.
#pragma once
#include <algorithm>
#include <vector>
#include <cstdint>
#include <functional>
#include <iterator>

namespace sim_sort {
struct State { uint64_t seed = 1; unsigned long calls = 0; unsigned long comparisons = 0; unsigned long swo_violations = 0; unsigned long elements = 0; };
inline State& state() { static State s; return s; }
inline uint64_t next(uint64_t& s) { uint64_t z = (s += 0x9e3779b97f4a7c15ull); z = (z ^ (z >> 30)) * 0xbf58476d1ce4e5b9ull; z = (z ^ (z >> 27)) * 0x94d049bb133111ebull; return z ^ (z >> 31); }

template <class It, class Cmp> void rec(It b, It e, Cmp& c, uint64_t& rng) {
  auto n = e - b;
  if (n < 2) return;
  if (n <= (long)(1 + next(rng) % 16)) {  // leaf: insertion sort scanning from a seeded end
    if (next(rng) & 1) { for (It i = b + 1; i != e; ++i) { auto v = *i; It j = i; while (j != b && c(v, *(j - 1))) { *j = *(j - 1); --j; } *j = v; } }
    else { for (It i = e - 1; i != b;) { --i; auto v = *i; It j = i; while (j + 1 != e && c(*(j + 1), v)) { *j = *(j + 1); ++j; } *j = v; } }
    return;
  }
  std::iter_swap(b, b + next(rng) % n);
  auto pivot = *b; It lo = b + 1, hi = e;  // [< pivot][>= pivot]
  while (lo < hi) { if (c(*lo, pivot)) ++lo; else { --hi; std::iter_swap(lo, hi); } }
  std::iter_swap(b, lo - 1);
  if (next(rng) & 1) { rec(b, lo - 1, c, rng); rec(lo, e, c, rng); } else { rec(lo, e, c, rng); rec(b, lo - 1, c, rng); }
}
template <class It, class Cmp> void sort(It b, It e, Cmp c) {
  State& st = state();
  ++st.calls; st.elements += (unsigned long)(e - b);
  uint64_t rng = st.seed * 0x9e3779b97f4a7c15ull + st.calls;
  auto counting = [&](const auto& x, const auto& y) { ++st.comparisons; return c(x, y); };
  auto n = e - b;
  for (long i = n - 1; i > 0; --i) std::iter_swap(b + i, b + next(rng) % (i + 1));  // the input order carries no promise
  rec(b, e, counting, rng);
  // strict weak order on what was shown: irreflexive, and the result is consistent (no later element before an earlier one);
  // transitivity (of the order and of equivalence) on all triples of small inputs, on seeded sampled triples otherwise
  if (n <= 256) for (long i = 0; i < n; ++i) { if (c(b[i], b[i])) ++st.swo_violations; for (long j = i + 1; j < n; ++j) if (c(b[j], b[i])) ++st.swo_violations; }
  auto triple = [&](long i, long j, long k) {
    if (c(b[i], b[j]) && c(b[j], b[k]) && !c(b[i], b[k])) ++st.swo_violations;
    bool eij = !c(b[i], b[j]) && !c(b[j], b[i]), ejk = !c(b[j], b[k]) && !c(b[k], b[j]), eik = !c(b[i], b[k]) && !c(b[k], b[i]);
    if (eij && ejk && !eik) ++st.swo_violations;
  };
  if (n <= 10) { for (long i = 0; i < n; ++i) for (long j = 0; j < n; ++j) for (long k = 0; k < n; ++k) triple(i, j, k); }
  else for (int t = 0; t < 400; ++t) triple((long)(next(rng) % n), (long)(next(rng) % n), (long)(next(rng) % n));  // sampled triples
}
}  // namespace sim_sort

namespace tbb {
template <class It, class Cmp> void parallel_sort(It b, It e, Cmp c) { sim_sort::sort(b, e, c); }
template <class It> void parallel_sort(It b, It e) { sim_sort::sort(b, e, std::less<typename std::iterator_traits<It>::value_type>()); }
template <class Range, class Cmp> void parallel_sort(Range& r, Cmp c) { sim_sort::sort(std::begin(r), std::end(r), c); }
}  // namespace tbb
