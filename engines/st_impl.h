// Templated executor of the st_hist engine for one SimplexTreeOptions set. See st_common.h / DESIGN.md section 4 (C01, C03, C04).
#pragma once
#include "st_common.h"
#include <gudhi/Simplex_tree.h>
#include <gudhi/graph_simplicial_complex.h>
#include <gudhi/Rips_complex.h>
#include <gudhi/distance_functions.h>
#include <gudhi/Bitmap_cubical_complex.h>
#include <gudhi/Bitmap_cubical_complex_base.h>
#include <boost/graph/graph_traits.hpp>
#include <limits>
#include <map>
#include <set>
#include <sstream>
#ifdef GUDHI_USE_TBB
#include <tbb/parallel_sort.h>  // the shim: defines sim_sort
#endif

namespace sth {

using model::Mask; using model::Complex;

// ---------------------------------------------------------------------------------------------------------------------
// Seam S5: a user graph (model of boost VertexAndEdgeListGraph + PropertyGraph) whose vertex order, edge order, edge
// orientation and duplicate edges come from the plan.
struct Adversarial_graph {
  struct Edge { int u, v; double f; };
  std::vector<int> verts; std::vector<double> vf; std::vector<Edge> es;
  double vertex_value(int v) const { for (size_t i = 0; i < verts.size(); ++i) if (verts[i] == v) return vf[i]; return 0; }
};
typedef const Adversarial_graph::Edge* Adv_edge;
struct Adv_edge_iterator {
  typedef std::forward_iterator_tag iterator_category; typedef Adv_edge value_type; typedef std::ptrdiff_t difference_type; typedef const Adv_edge* pointer; typedef Adv_edge reference;
  const Adversarial_graph::Edge* p = nullptr;
  Adv_edge operator*() const { return p; }
  Adv_edge_iterator& operator++() { ++p; return *this; }
  Adv_edge_iterator operator++(int) { Adv_edge_iterator t = *this; ++p; return t; }
  bool operator==(const Adv_edge_iterator& o) const { return p == o.p; }
  bool operator!=(const Adv_edge_iterator& o) const { return p != o.p; }
};
inline std::pair<std::vector<int>::const_iterator, std::vector<int>::const_iterator> vertices(const Adversarial_graph& g) { return {g.verts.begin(), g.verts.end()}; }
inline std::pair<Adv_edge_iterator, Adv_edge_iterator> edges(const Adversarial_graph& g) { return {Adv_edge_iterator{g.es.data()}, Adv_edge_iterator{g.es.data() + g.es.size()}}; }
inline std::size_t num_vertices(const Adversarial_graph& g) { return g.verts.size(); }
inline std::size_t num_edges(const Adversarial_graph& g) { return g.es.size(); }
inline int source(Adv_edge e, const Adversarial_graph&) { return e->u; }
inline int target(Adv_edge e, const Adversarial_graph&) { return e->v; }
inline double get(Gudhi::vertex_filtration_t, const Adversarial_graph& g, int v) { return g.vertex_value(v); }
inline double get(Gudhi::edge_filtration_t, const Adversarial_graph&, Adv_edge e) { return e->f; }

}  // namespace sth

namespace boost {
template <> struct graph_traits<sth::Adversarial_graph> {
  typedef int vertex_descriptor; typedef sth::Adv_edge edge_descriptor;
  typedef std::vector<int>::const_iterator vertex_iterator; typedef sth::Adv_edge_iterator edge_iterator;
  typedef directed_tag directed_category; typedef allow_parallel_edge_tag edge_parallel_category;
  struct traversal_category : vertex_list_graph_tag, edge_list_graph_tag {};
  typedef std::size_t vertices_size_type; typedef std::size_t edges_size_type; typedef std::size_t degree_size_type;
};
}  // namespace boost

namespace sth {

inline std::string seq_str(const Complex& m, const std::vector<Mask>& s) { std::string o; for (Mask x : s) o += m.str(x); return o; }
inline uint64_t h2(uint64_t a, uint64_t b) { return sim::mix(a, b); }

template <class Opt>
struct Exec {
  typedef Gudhi::Simplex_tree<Opt> ST;
  typedef typename ST::Simplex_handle SH; typedef typename ST::Vertex_handle VH; typedef typename ST::Filtration_value FV;
  static constexpr bool HAS_F = Opt::store_filtration;
  static constexpr bool CONTIG = Opt::contiguous_vertices;
  static constexpr bool LINK = Opt::link_nodes_by_label;

  const sim::Plan& p; sim::Run& r; Obs& obs; std::string cfg;
  Complex m; std::vector<VH> lab; bool contig; int dimcap;

  Exec(const sim::Plan& p_, sim::Run& r_, Obs& o_, const char* c) : p(p_), r(r_), obs(o_), cfg(c) {
    std::vector<long> labels; for (int x : sim::split_ints(p.get("labels"))) labels.push_back(x);
    m = Complex(labels); for (long l : m.labels) lab.push_back((VH)l);
    contig = p.geti("contig") != 0; dimcap = (int)p.geti("dimcap", 3);
  }
  [[noreturn]] void fail(const std::string& oracle, const std::string& d) { r.fail(oracle, "[" + cfg + "] " + d); }
#define ST_REQ(cond, oracle, d) do { if (!(cond)) fail((oracle), (d)); } while (0)

  double val(long vi) const { return HAS_F ? value_of(vi) : 0.0; }
  std::vector<VH> word(Mask x) const { std::vector<VH> w; for (int i = 0; i < m.n; ++i) if (x >> i & 1) w.push_back(lab[i]); return w; }
  std::vector<VH> word_perm(Mask x, uint64_t seed, bool dups) const { auto w = word(x); sim::Rng g(seed | 1); g.shuffle(w); if (dups && !w.empty()) w.push_back(w[g.below((long)w.size())]); return w; }
  template <class T> Mask mask_of(const T& st, SH sh) const {
    Mask x = 0;
    for (auto v : st.simplex_vertex_range(sh)) { auto it = std::find(lab.begin(), lab.end(), v); if (it == lab.end()) return 0; x |= 1u << (it - lab.begin()); }
    return x;
  }
  static bool feq(double a, double b) { return a == b || (a != a && b != b); }

  // ------------------------------------------------------------------------------------------------- full audit (C01)
  template <class T> void audit_tree(const T& st, const Complex& mo, uint64_t seed, bool call_dimension, const char* what) {
    sim::Rng g(seed | 1);
    const Mask full = mo.full();
    // membership + values through find, on every vertex set of the universe (seeded order)
    std::vector<Mask> q; for (Mask x = 1; x <= full; ++x) q.push_back(x); g.shuffle(q);
    for (Mask x : q) {
      auto w = word_perm(x, seed ^ x, false);
      SH sh = st.find(w);
      bool in = sh != st.null_simplex();
      ST_REQ(in == mo.has(x), "find", std::string(what) + " find(" + mo.str(x) + ")=" + std::to_string(in) + " model=" + std::to_string(mo.has(x)));
      if (in) {
        ST_REQ(mask_of(st, sh) == x, "find", std::string(what) + " find(" + mo.str(x) + ") designates " + mo.str(mask_of(st, sh)));
        if (HAS_F) ST_REQ(feq((double)st.filtration(sh), mo.val[x]), "filt", std::string(what) + " filtration(" + mo.str(x) + ")=" + std::to_string((double)st.filtration(sh)) + " model=" + std::to_string(mo.val[x]));
        ST_REQ(st.dimension(sh) == model::dim_of(x), "dimq", std::string(what) + " dimension(sh) of " + mo.str(x) + " = " + std::to_string(st.dimension(sh)));
        // vertices are listed in decreasing order (documented for simplex_vertex_range)
        VH prev = std::numeric_limits<VH>::max(); int cnt = 0;
        for (auto v : st.simplex_vertex_range(sh)) { ST_REQ(v < prev, "enum", std::string(what) + " simplex_vertex_range of " + mo.str(x) + " not strictly decreasing"); prev = v; ++cnt; }
        ST_REQ(cnt == model::popcount(x), "enum", "simplex_vertex_range length");
      }
    }
    { // a foreign label is never a member
      VH foreign = lab.back() + 3; std::vector<VH> w = {foreign};
      ST_REQ(st.find(w) == st.null_simplex(), "find", std::string(what) + " foreign vertex found");
      if (mo.has(1)) { std::vector<VH> w2 = {lab[0], foreign}; ST_REQ(st.find(w2) == st.null_simplex(), "find", std::string(what) + " simplex with a foreign vertex found"); }
    }
    // vertex range
    { std::vector<VH> got; for (auto v : st.complex_vertex_range()) got.push_back(v); std::sort(got.begin(), got.end()); std::vector<VH> exp; for (int i = 0; i < mo.n; ++i) if (mo.has(1u << i)) exp.push_back(lab[i]);
      ST_REQ(got == exp, "enum", std::string(what) + " complex_vertex_range has " + std::to_string(got.size()) + " vertices, model " + std::to_string(exp.size())); }
    // simplex range: every simplex exactly once
    const std::vector<Mask> all = mo.simplices();
    { std::vector<Mask> got; for (auto sh : st.complex_simplex_range()) got.push_back(mask_of(st, sh)); std::sort(got.begin(), got.end());
      ST_REQ(got == all, "enum", std::string(what) + " complex_simplex_range lists " + std::to_string(got.size()) + " simplices (with repetition), model " + std::to_string(all.size())); }
    const int D = mo.dimension();
    for (int d = 0; d <= D + 1; ++d) {
      std::vector<Mask> got; for (auto sh : st.skeleton_simplex_range(d)) got.push_back(mask_of(st, sh)); std::sort(got.begin(), got.end());
      std::vector<Mask> exp; for (Mask x : all) if (model::dim_of(x) <= d) exp.push_back(x);
      ST_REQ(got == exp, "enum", std::string(what) + " skeleton_simplex_range(" + std::to_string(d) + ") lists " + std::to_string(got.size()) + " simplices, model " + std::to_string(exp.size()));
    }
    // counts and dimensions
    ST_REQ(st.num_simplices() == all.size(), "count", std::string(what) + " num_simplices=" + std::to_string(st.num_simplices()) + " model=" + std::to_string(all.size()));
    ST_REQ(st.num_vertices() == mo.num_vertices(), "count", std::string(what) + " num_vertices=" + std::to_string(st.num_vertices()) + " model=" + std::to_string(mo.num_vertices()));
    ST_REQ(st.is_empty() == all.empty(), "count", std::string(what) + " is_empty wrong");
    ST_REQ(st.upper_bound_dimension() >= D, "dimq", std::string(what) + " upper_bound_dimension=" + std::to_string(st.upper_bound_dimension()) + " below the dimension " + std::to_string(D));
    if (call_dimension) {
      if (g.chance(1, 2)) {
        ST_REQ(st.dimension() == D, "dimq", std::string(what) + " dimension()=" + std::to_string(st.dimension()) + " model=" + std::to_string(D));
        auto byd = st.num_simplices_by_dimension();
        ST_REQ(byd == mo.count_by_dim(), "count", std::string(what) + " num_simplices_by_dimension has " + std::to_string(byd.size()) + " entries, model " + std::to_string(mo.count_by_dim().size()) + " (or an entry differs)");
      } else {
        auto byd = st.num_simplices_by_dimension();
        ST_REQ(byd == mo.count_by_dim(), "count", std::string(what) + " num_simplices_by_dimension has " + std::to_string(byd.size()) + " entries, model " + std::to_string(mo.count_by_dim().size()) + " (or an entry differs)");
        ST_REQ(st.dimension() == D, "dimq", std::string(what) + " dimension()=" + std::to_string(st.dimension()) + " model=" + std::to_string(D));
      }
      ST_REQ(st.upper_bound_dimension() == D, "dimq", std::string(what) + " upper_bound_dimension()=" + std::to_string(st.upper_bound_dimension()) + " after dimension() model=" + std::to_string(D));
    }
    // boundary (with opposite vertices), star and cofaces of every simplex
    for (Mask x : all) {
      SH sh = st.find(word(x));
      { std::vector<Mask> got; for (auto b : st.boundary_simplex_range(sh)) got.push_back(mask_of(st, b)); std::sort(got.begin(), got.end()); auto exp = mo.facets_of(x); std::sort(exp.begin(), exp.end());
        ST_REQ(got == exp, "bdry", std::string(what) + " boundary_simplex_range(" + mo.str(x) + ") has " + std::to_string(got.size()) + " faces, model " + std::to_string(exp.size())); }
      { std::vector<Mask> got; for (auto bv : st.boundary_opposite_vertex_simplex_range(sh)) { Mask f = mask_of(st, bv.first); auto it = std::find(lab.begin(), lab.end(), bv.second); ST_REQ(it != lab.end(), "bdry", "opposite vertex foreign"); Mask v = 1u << (it - lab.begin());
          ST_REQ((f | v) == x && (f & v) == 0, "bdry", std::string(what) + " boundary_opposite_vertex of " + mo.str(x) + ": face " + mo.str(f) + " with vertex " + mo.str(v)); got.push_back(f); }
        std::sort(got.begin(), got.end()); auto exp = mo.facets_of(x); std::sort(exp.begin(), exp.end());
        ST_REQ(got == exp, "bdry", std::string(what) + " boundary_opposite_vertex_simplex_range(" + mo.str(x) + ") wrong set of faces"); }
      { std::vector<Mask> got; for (auto c : st.star_simplex_range(sh)) got.push_back(mask_of(st, c)); std::sort(got.begin(), got.end()); auto exp = mo.cofaces(x, 0);
        ST_REQ(got == exp, "star", std::string(what) + " star_simplex_range(" + mo.str(x) + ") has " + std::to_string(got.size()) + " simplices, model " + std::to_string(exp.size())); }
      for (int c = 0; c <= D - model::dim_of(x) + 1; ++c) {
        std::vector<Mask> got; for (auto cs : st.cofaces_simplex_range(sh, c)) got.push_back(mask_of(st, cs)); std::sort(got.begin(), got.end()); auto exp = mo.cofaces(x, c);
        ST_REQ(got == exp, "star", std::string(what) + " cofaces_simplex_range(" + mo.str(x) + "," + std::to_string(c) + ") has " + std::to_string(got.size()) + " simplices, model " + std::to_string(exp.size()));
      }
    }
    r.log(mo.hash(HAS_F));
  }

  // tree of type T built from the model by a seeded history (faces first)
  template <class T> void build_from_model(T& t, const Complex& mo, uint64_t seed) const {
    sim::Rng g(seed | 1);
    std::vector<Mask> all = mo.simplices(); g.shuffle(all);
    std::stable_sort(all.begin(), all.end(), [](Mask a, Mask b) { return model::popcount(a) < model::popcount(b); });
    bool one_by_one = g.chance(1, 2);
    if constexpr (T::Options::store_filtration) {
      if (!one_by_one) {
        auto mx = mo.maximal_simplices(); g.shuffle(mx);
        for (Mask x : mx) t.insert_simplex_and_subfaces(word_perm(x, seed ^ x, true), (typename T::Filtration_value)mo.val[x]);
        for (Mask x : all) t.assign_filtration(t.find(word(x)), (typename T::Filtration_value)mo.val[x]);
        return;
      }
    }
    for (Mask x : all) t.insert_simplex(word_perm(x, seed ^ x, false), (typename T::Filtration_value)(T::Options::store_filtration ? mo.val[x] : 0));
  }

  // ------------------------------------------------------------------------------------- filtration order (C03)
  template <class T> std::vector<Mask> read_order(T& st, const Complex& mo, bool ignore_inf, bool explicit_init) {
    st.clear_filtration();
    if (ignore_inf || explicit_init) st.initialize_filtration(ignore_inf);
    std::vector<Mask> seq; for (auto sh : st.filtration_simplex_range()) seq.push_back(mask_of(st, sh));
    (void)mo; return seq;
  }
  void check_order_valid(const Complex& mo, const std::vector<Mask>& seq, bool ignore_inf, const char* what) {
    std::vector<char> seen(mo.in.size(), 0); double last = -std::numeric_limits<double>::infinity(); size_t expect = 0;
    for (Mask x : mo.simplices()) if (!(ignore_inf && mo.val[x] == std::numeric_limits<double>::infinity())) ++expect;
    for (Mask x : seq) {
      ST_REQ(mo.has(x), "order-valid", std::string(what) + ": filtration range lists " + mo.str(x) + " which is not in the complex");
      ST_REQ(!seen[x], "order-valid", std::string(what) + ": filtration range lists " + mo.str(x) + " twice");
      ST_REQ(!(ignore_inf && mo.val[x] == std::numeric_limits<double>::infinity()), "order-valid", std::string(what) + ": ignored (infinite) simplex listed");
      ST_REQ(!(mo.val[x] < last), "order-valid", std::string(what) + ": value decreases at " + mo.str(x) + " in " + seq_str(mo, seq));
      for (Mask f = (x - 1) & x; f; f = (f - 1) & x) ST_REQ(seen[f] || (ignore_inf && mo.val[f] == std::numeric_limits<double>::infinity()), "order-valid", std::string(what) + ": " + mo.str(x) + " comes before its face " + mo.str(f) + " in " + seq_str(mo, seq));
      seen[x] = 1; last = mo.val[x];
    }
    ST_REQ(seq.size() == expect, "order-valid", std::string(what) + ": filtration range has " + std::to_string(seq.size()) + " simplices, expected " + std::to_string(expect));
  }
  template <class T> void audit_order(T& st, const Complex& mo, uint64_t seed, int nseeds, const std::string& tag) {
    if (!HAS_F) return;
    bool any_inf = false; for (Mask x : mo.simplices()) if (mo.val[x] == std::numeric_limits<double>::infinity()) any_inf = true;
    std::vector<Mask> ref, ref_ign;
    for (int k = 0; k < nseeds; ++k) {
#ifdef GUDHI_USE_TBB
      sim_sort::state().seed = h2(seed, k);
#endif
      auto s = read_order(st, mo, false, k % 2 == 1);
      check_order_valid(mo, s, false, "filtration_simplex_range");
      if (k == 0) ref = s; else ST_REQ(s == ref, "order-det", "filtration order depends on the sort schedule: " + seq_str(mo, ref) + " vs " + seq_str(mo, s));
      bool all_inf = any_inf; for (Mask x : mo.simplices()) if (mo.val[x] != std::numeric_limits<double>::infinity()) all_inf = false;
      if (all_inf) r.count("probe.order_all_infinite");
      if (any_inf) {
        auto si = read_order(st, mo, true, true);
        check_order_valid(mo, si, true, "filtration_simplex_range(ignore_infinite_values)");
        if (k == 0) ref_ign = si; else ST_REQ(si == ref_ign, "order-det", "filtration order (ignoring infinite values) depends on the sort schedule");
      }
      r.count("probe.order_sequences");
    }
    // Leave the cache in a seeded state for the operations that follow: dropped, filled by a plain sort, or filled while ignoring
    // infinite values. A later modification makes it stale, which is legal as long as nobody reads the range without
    // clear_filtration() (the harness never does); library operations must not trust it.
    switch (seed % 3) {
      case 0: st.clear_filtration(); break;
      case 1: (void)read_order(st, mo, false, true); r.count("probe.cache_left_filled"); break;
      default: if (any_inf) { (void)read_order(st, mo, true, true); r.count("probe.cache_left_filled_ignoring_inf"); } else st.clear_filtration(); break;
    }
    // a tree of the same type built by another history must give the same sequence
    { T other; build_from_model(other, mo, h2(seed, 77));
#ifdef GUDHI_USE_TBB
      sim_sort::state().seed = h2(seed, 78);
#endif
      auto s = read_order(other, mo, false, false);
      ST_REQ(s == ref, "order-det", "filtration order depends on the insertion history: " + seq_str(mo, ref) + " vs " + seq_str(mo, s)); }
#ifdef GUDHI_USE_TBB
    ST_REQ(sim_sort::state().swo_violations == 0, "swo", "the comparator handed to the sort is not a strict weak order (" + std::to_string(sim_sort::state().swo_violations) + " violations)");
    r.count("sort.comparisons", 0);
#endif
    obs.add("order@" + tag, seq_str(mo, ref));
    if (any_inf && !ref_ign.empty()) obs.add("order-ign@" + tag, seq_str(mo, ref_ign));
    r.log(sim::hash_str(seq_str(mo, ref)));
  }

  // ------------------------------------------------------------------------------------- equality (C01)
  template <class T> void audit_equality(T& st, const Complex& mo, uint64_t seed) {
    T other; build_from_model(other, mo, seed);
    ST_REQ(st == other, "eq", "operator== false against a tree of the same type holding the same filtered complex (built by another history)");
    ST_REQ(other == st, "eq", "operator== not symmetric");
    ST_REQ(!(st != other), "eq", "operator!= true on equal trees");
    if (HAS_F) {
      Gudhi::Simplex_tree<Gudhi::Simplex_tree_options_default> dflt;
      if (!contig || true) { build_from_model(dflt, mo, seed + 1); ST_REQ(st == dflt, "eq", "operator== false against Simplex_tree<default> holding the same filtered complex"); ST_REQ(dflt == st, "eq", "operator== (default vs this option set) false"); }
    }
    // a different complex must compare unequal
    auto mx = mo.maximal_simplices();
    if (!mx.empty()) {
      sim::Rng g(seed | 1); Mask x = mx[g.below((long)mx.size())];
      bool chg = g.chance(1, 2); bool done = false;
      if constexpr (HAS_F) { if (chg) { other.assign_filtration(other.find(word(x)), (FV)(mo.val[x] == std::numeric_limits<double>::infinity() ? 0 : mo.val[x] + 0.25)); done = true; } }
      if (done) {}
      else if (!(contig && model::popcount(x) == 1 && x != (1u << (mo.num_vertices() - 1)))) other.remove_maximal_simplex(other.find(word(x)));
      else return;
      ST_REQ(!(st == other), "eq", "operator== true against a tree that differs in " + mo.str(x));
      ST_REQ(st != other, "eq", "operator!= false against a tree that differs in " + mo.str(x));
    }
  }

  // ------------------------------------------------------------------------------------- the C01 / C03 history executor
  void ensure_vertices(ST& st) {
    if (!contig) return;
    if (m.num_vertices() == (size_t)m.n) return;
    // contiguous mode: the vertex set is always 0..n-1 (or empty): complete it with one batch insertion at value 0
    std::vector<VH> vs; for (int i = 0; i < m.n; ++i) vs.push_back(lab[i]);
    st.insert_batch_vertices(vs, (FV)0);
    for (int i = 0; i < m.n; ++i) if (!m.has(1u << i)) m.insert_one(1u << i, 0);
  }
  Mask trim(Mask x) const { x &= m.full(); while (model::popcount(x) > dimcap + 1) x &= x - 1; return x; }

  void run_history() {
    ST st;
    const double INF = std::numeric_limits<double>::infinity();
    for (size_t i = 0; i < p.ops.size(); ++i) {
      const sim::Op& op = p.ops[i];
      r.begin_op((int)i, op);
      const std::string& nm = op.name;
      if (nm == "ins_faces") {
        ensure_vertices(st);
        Mask x = trim((Mask)op.arg(0)); if (!x) { r.skipped(); continue; }
        double f = val(op.arg(1));
        if (contig && f < 0) f = 0;
        bool was = m.has(x); double old = was ? m.val[x] : 0;
        auto res = st.insert_simplex_and_subfaces(word_perm(x, (uint64_t)op.arg(2), op.arg(2) & 1), (FV)f);
        ST_REQ(res.second == !was, "ret", "insert_simplex_and_subfaces(" + m.str(x) + ") returned bool " + std::to_string(res.second) + " but the simplex was " + (was ? "present" : "absent"));
        bool expect_handle = !was || (HAS_F && f < old);
        ST_REQ((res.first != st.null_simplex()) == expect_handle, "ret", "insert_simplex_and_subfaces(" + m.str(x) + ") returned a " + (expect_handle ? "null" : "non-null") + " handle");
        if (expect_handle) ST_REQ(mask_of(st, res.first) == x, "ret", "insert_simplex_and_subfaces returned a handle to another simplex");
        m.insert_with_faces(x, f); r.mutated = true;
      } else if (nm == "ins_one") {
        ensure_vertices(st);
        std::vector<Mask> cand; for (Mask x = 1; x <= m.full(); ++x) if (model::popcount(x) <= dimcap + 1 && m.all_facets_in(x)) cand.push_back(x);
        if (cand.empty()) { r.skipped(); continue; }
        Mask x = cand[op.arg(0) % cand.size()];
        if (contig && model::popcount(x) == 1 && !m.has(x)) { r.skipped(); continue; }
        double lo = 0; for (Mask f = (x - 1) & x; f; f = (f - 1) & x) lo = std::max(lo, m.val[f]);
        double f = HAS_F ? lo + 0.25 * (double)(op.arg(1) % 4) : 0.0;
        bool was = m.has(x); double old = was ? m.val[x] : 0;
        // an existing simplex may only be lowered as long as its cofaces stay above it: always true, values only go down
        auto res = st.insert_simplex(word_perm(x, (uint64_t)op.arg(2), false), (FV)f);
        ST_REQ(res.second == !was, "ret", "insert_simplex(" + m.str(x) + ") returned bool " + std::to_string(res.second) + " but the simplex was " + (was ? "present" : "absent"));
        bool expect_handle = !was || (HAS_F && f < old);
        ST_REQ((res.first != st.null_simplex()) == expect_handle, "ret", "insert_simplex(" + m.str(x) + ") returned a " + (expect_handle ? "null" : "non-null") + " handle");
        if (expect_handle) ST_REQ(mask_of(st, res.first) == x, "ret", "insert_simplex returned a handle to another simplex");
        m.insert_one(x, f); r.mutated = true;
      } else if (nm == "batch") {
        if (contig) { ensure_vertices(st); r.skipped(); continue; }
        Mask x = (Mask)op.arg(0) & m.full(); if (!x) { r.skipped(); continue; }
        double f = val(op.arg(1) % 13);
        auto w = word_perm(x, (uint64_t)op.arg(2), op.arg(2) & 1);
        st.insert_batch_vertices(w, (FV)f);
        for (int k = 0; k < m.n; ++k) if ((x >> k & 1) && !m.has(1u << k)) m.insert_one(1u << k, f);  // existing vertices are left untouched
        r.mutated = true;
      } else if (nm == "graph") {
        if (!m.empty()) { r.skipped(); continue; }
        sim::Rng g((uint64_t)op.arg(0) | 1);
        Adversarial_graph ag;
        int dens = (int)g.range(1, 5);
        std::vector<int> vi;  // indices of the vertices of the graph
        for (int k = 0; k < m.n; ++k) if (contig || g.chance(4, 5)) vi.push_back(k);
        std::vector<double> vv(m.n, -1);
        for (int k : vi) vv[k] = contig ? 0 : val(g.below(6));
        for (int k : vi) { ag.verts.push_back(lab[k]); ag.vf.push_back(vv[k]); }
        { std::vector<size_t> perm(ag.verts.size()); for (size_t k = 0; k < perm.size(); ++k) perm[k] = k; g.shuffle(perm); Adversarial_graph t; for (size_t k : perm) { t.verts.push_back(ag.verts[k]); t.vf.push_back(ag.vf[k]); } ag.verts = t.verts; ag.vf = t.vf; }
        for (size_t a = 0; a < vi.size(); ++a) for (size_t b = a + 1; b < vi.size(); ++b) if (g.below(6) < dens) {
          double f = std::max({vv[vi[a]], vv[vi[b]], val(g.below(9))});
          bool flip = g.chance(1, 2);
          ag.es.push_back({flip ? (int)lab[vi[b]] : (int)lab[vi[a]], flip ? (int)lab[vi[a]] : (int)lab[vi[b]], f});
          if (g.chance(1, 6)) { ag.es.push_back({(int)lab[vi[b]], (int)lab[vi[a]], f}); r.count("fault.graph_duplicate_edge"); }  // duplicate (both orientations, equal value)
          m.insert_one((1u << vi[a]) | (1u << vi[b]), HAS_F ? f : 0);
        }
        g.shuffle(ag.es);
        for (int k : vi) m.insert_one(1u << k, HAS_F ? vv[k] : 0);
        st.insert_graph(ag);
        r.mutated = true; r.count("probe.insert_graph");
      } else if (nm == "expand") {
        if (m.empty() || m.dimension() > 1) { r.skipped(); continue; }
        int d = (int)op.arg(0) % 5;
        st.expansion(d);
        if (d > 1) {
          std::vector<double> vv(m.n, -1); std::vector<std::vector<double>> ee(m.n, std::vector<double>(m.n, -1));
          for (int a = 0; a < m.n; ++a) if (m.has(1u << a)) { vv[a] = m.val[1u << a]; for (int b = a + 1; b < m.n; ++b) if (m.has((1u << a) | (1u << b))) ee[a][b] = m.val[(1u << a) | (1u << b)]; }
          Complex c = model::clique_complex(m.labels, vv, ee, d);
          // expansion: value = the maximal value of its edges (the graph inserted above has vertex values <= edge values)
          m.in = c.in; m.val = c.val;
        }
        r.mutated = true; r.count("probe.expansion");
      } else if (nm == "clear") {
        st.clear(); m.clear(); r.mutated = true;
      } else if (nm == "rem_max") {
        auto mx = m.maximal_simplices(); if (mx.empty()) { r.skipped(); continue; }
        Mask x = mx[op.arg(0) % mx.size()];
        if (contig && model::popcount(x) == 1 && x != (1u << (m.num_vertices() - 1))) { r.skipped(); continue; }
        st.remove_maximal_simplex(st.find(word(x)));
        m.in[x] = 0; r.mutated = true;
        if (m.empty()) r.count("probe.emptied_by_removal");
      } else if (nm == "prune_filt") {
        double t = val(op.arg(0));
        bool ret = st.prune_above_filtration((FV)t);
        bool exp = t == INF ? false : m.prune_above_value(t);
        ST_REQ(ret == exp, "ret", "prune_above_filtration(" + std::to_string(t) + ") returned " + std::to_string(ret) + " model " + std::to_string(exp));
        r.mutated = true;
      } else if (nm == "prune_dim") {
        int d = (int)op.arg(0) % 8 - 2;
        bool ret = st.prune_above_dimension(d);
        bool exp = m.prune_above_dim(d);
        ST_REQ(ret == exp, "ret", "prune_above_dimension(" + std::to_string(d) + ") returned " + std::to_string(ret) + " model " + std::to_string(exp));
        r.mutated = true;
      } else if (nm == "scramble") {
        if constexpr (HAS_F) {
        if (m.empty()) { r.skipped(); continue; }
        // arbitrary (non-NaN) values, then the least monotone function above them
        if (op.arg(1) % 4 != 0) for (Mask x : m.simplices()) { if (contig && model::popcount(x) == 1) continue; double v = value_of((long)(h2((uint64_t)op.arg(0), x) % 13)); st.assign_filtration(st.find(word(x)), (FV)v); m.val[x] = v; }
        bool ret = st.make_filtration_non_decreasing();
        bool exp = m.make_non_decreasing();
        ST_REQ(ret == exp, "mono", "make_filtration_non_decreasing returned " + std::to_string(ret) + " model " + std::to_string(exp));
        r.mutated = true; r.count(exp ? "probe.mono_changed" : "probe.mono_unchanged");
        } else { r.skipped(); continue; }
      } else if (nm == "reset_filt") {
        if constexpr (HAS_F) {
        if (m.empty()) { r.skipped(); continue; }
        double v = val(op.arg(0) % 13); int md = (int)op.arg(1) % 4;
        if (contig && md == 0) md = 1;
        st.reset_filtration((FV)v, md);
        for (Mask x : m.simplices()) if (model::dim_of(x) >= md) m.val[x] = v;
        bool ret = st.make_filtration_non_decreasing(); bool exp = m.make_non_decreasing();
        ST_REQ(ret == exp, "mono", "make_filtration_non_decreasing after reset_filtration returned " + std::to_string(ret) + " model " + std::to_string(exp));
        r.mutated = true;
        } else { r.skipped(); continue; }
      } else if (nm == "extend") {
        if constexpr (HAS_F) { if (m.empty()) { r.skipped(); continue; } check_extended(st); } else { r.skipped(); continue; }
      } else if (nm == "cubical") {
        // secondary workload of C03: the cell order of a cubical complex under the same sort seam (independent of the tree's option set)
        if (cfg == "default" || cfg == "default_seq") check_cubical((uint64_t)op.arg(0), std::to_string(i)); else r.skipped();
      } else if (nm == "audit") {
        long flags = op.arg(1);
        audit_tree(st, m, (uint64_t)op.arg(0), flags & 1, "tree");
        if (flags & 2) audit_order(st, m, (uint64_t)op.arg(0), p.geti("sort_seeds", 3), std::to_string(i));
        if (flags & 4) audit_equality(st, m, (uint64_t)op.arg(0));
        r.audited = true;
      } else { r.skipped(); continue; }
      r.state(m.hash(HAS_F));
    }
  }

  void check_cubical(uint64_t seed, const std::string& tag) {
    typedef Gudhi::cubical_complex::Bitmap_cubical_complex<Gudhi::cubical_complex::Bitmap_cubical_complex_base<double>> CC;
    sim::Rng g(seed | 1);
    int d = (int)g.range(1, 3); std::vector<unsigned> sizes; size_t top = 1; for (int k = 0; k < d; ++k) { unsigned sz = (unsigned)g.range(1, d == 3 ? 2 : 4); sizes.push_back(sz); top *= sz; }
    int nvals = (int)g.range(1, 4); std::vector<double> vals; for (size_t k = 0; k < top; ++k) vals.push_back(0.5 * (double)g.below(nvals));  // heavy ties
    CC cc(sizes, vals);
    std::vector<size_t> ref;
    for (int k = 0; k < 3; ++k) {
#ifdef GUDHI_USE_TBB
      sim_sort::state().seed = h2(seed, k);
#endif
      cc.initialize_filtration();
      std::vector<size_t> seq; for (auto sh : cc.filtration_simplex_range()) seq.push_back(sh);
      ST_REQ(seq.size() == cc.num_simplices(), "order-valid", "cubical filtration range has " + std::to_string(seq.size()) + " cells of " + std::to_string(cc.num_simplices()));
      std::vector<long> posn(cc.num_simplices(), -1); double last = -1e300;
      for (size_t q = 0; q < seq.size(); ++q) { ST_REQ(posn[seq[q]] < 0, "order-valid", "cubical filtration range lists a cell twice"); posn[seq[q]] = (long)q; ST_REQ(!(cc.filtration(seq[q]) < last), "order-valid", "cubical filtration range decreases in value"); last = cc.filtration(seq[q]); }
      for (size_t q = 0; q < seq.size(); ++q) for (auto b : cc.boundary_simplex_range(seq[q])) ST_REQ(posn[b] < (long)q, "order-valid", "cubical cell " + std::to_string(seq[q]) + " comes before its face " + std::to_string(b));
      if (k == 0) ref = seq; else ST_REQ(seq == ref, "order-det", "the cubical cell order depends on the sort schedule");
      r.count("probe.cubical_orders");
    }
#ifdef GUDHI_USE_TBB
    ST_REQ(sim_sort::state().swo_violations == 0, "swo", "the cubical comparator handed to the sort is not a strict weak order");
#endif
    std::string sq; for (size_t x : ref) sq += std::to_string(x) + ","; obs.add("cubical@" + tag, sq);
  }

  void check_extended(const ST& orig) {
    const double INF = std::numeric_limits<double>::infinity();
    for (int k = 0; k < m.n; ++k) if (m.has(1u << k) && m.val[1u << k] == INF) { r.skipped(); return; }
    ST c(orig);
    auto efd = c.extend_filtration();
    FV mn = (FV)INF, mx = (FV)-INF; for (int k = 0; k < m.n; ++k) if (m.has(1u << k)) { mn = std::min(mn, (FV)m.val[1u << k]); mx = std::max(mx, (FV)m.val[1u << k]); }
    ST_REQ(efd.minval == mn && efd.maxval == mx, "ext", "extend_filtration returned min/max " + std::to_string((double)efd.minval) + "/" + std::to_string((double)efd.maxval));
    FV scale = mx - mn; if (scale != 0) scale = 1 / scale;
    VH cone = lab[0]; for (int k = 0; k < m.n; ++k) if (m.has(1u << k)) cone = std::max(cone, lab[k]); cone += 1;
    const double tol = sizeof(FV) == 4 ? 1e-5 : 1e-12;
    auto near = [&](double a, double b) { return std::fabs(a - b) <= tol * (1 + std::fabs(b)); };
    size_t count = 0;
    for (auto sh : c.complex_simplex_range()) {
      ++count; Mask x = 0; bool coned = false;
      for (auto v : c.simplex_vertex_range(sh)) { if (v == cone) coned = true; else { auto it = std::find(lab.begin(), lab.end(), v); ST_REQ(it != lab.end(), "ext", "unknown vertex in the extended complex"); x |= 1u << (it - lab.begin()); } }
      double f = (double)c.filtration(sh);
      if (!x) { ST_REQ(coned && f == -3, "ext", "cone point has value " + std::to_string(f)); auto d = c.decode_extended_filtration((FV)f, efd); ST_REQ(d.second == Gudhi::Extended_simplex_type::EXTRA, "ext", "cone point not decoded as EXTRA"); continue; }
      ST_REQ(m.has(x), "ext", "extended complex contains " + m.str(x) + (coned ? "+cone" : "") + " which does not come from the complex");
      double smin = INF, smax = -INF, omin = INF, omax = -INF;
      for (int k = 0; k < m.n; ++k) if (x >> k & 1) { FV s = ((FV)m.val[1u << k] - mn) * scale; smin = std::min(smin, (double)s); smax = std::max(smax, (double)s); omin = std::min(omin, m.val[1u << k]); omax = std::max(omax, m.val[1u << k]); }
      double exp = coned ? 2 - smin : -2 + smax;
      ST_REQ(near(f, exp), "ext", "extended value of " + m.str(x) + (coned ? "+cone" : "") + " is " + std::to_string(f) + ", cone filtration gives " + std::to_string(exp));
      auto d = c.decode_extended_filtration((FV)f, efd);
      ST_REQ(d.second == (coned ? Gudhi::Extended_simplex_type::DOWN : Gudhi::Extended_simplex_type::UP), "ext", "wrong part decoded for " + m.str(x));
      double orig_v = coned ? omin : omax;
      ST_REQ(std::fabs((double)d.first - orig_v) <= (sizeof(FV) == 4 ? 1e-4 : 1e-9) * (1 + std::fabs(orig_v)), "ext", "decode_extended_filtration of " + m.str(x) + (coned ? "+cone" : "") + " gives " + std::to_string((double)d.first) + ", original vertex value " + std::to_string(orig_v));
    }
    ST_REQ(count == 2 * m.size() + 1, "ext", "extended complex has " + std::to_string(count) + " simplices, expected " + std::to_string(2 * m.size() + 1));
    r.count("probe.extended_filtration");
  }

  // ------------------------------------------------------------------------------------- flag routes (C04)
  struct Graph { std::vector<double> vv; std::vector<std::vector<double>> ee; };
  Graph graph_from_plan() const {
    Graph g; sim::Rng rng((uint64_t)p.geti("graph_seed") | 1);
    int n = m.n, dens = (int)p.geti("density", 3);
    g.vv.assign(n, -1); g.ee.assign(n, std::vector<double>(n, -1));
    for (int k = 0; k < n; ++k) if (contig || rng.chance(9, 10)) g.vv[k] = val(rng.below(4));
    for (int a = 0; a < n; ++a) for (int b = a + 1; b < n; ++b) if (g.vv[a] >= 0 && g.vv[b] >= 0 && rng.below(6) < dens) g.ee[a][b] = std::max({g.vv[a], g.vv[b], val(rng.below(8))});
    return g;
  }
  template <class T> void compare_with(const T& st, const Complex& c, const std::string& route) {
    // exact filtered complex comparison + dimension
    std::vector<Mask> got; for (auto sh : st.complex_simplex_range()) got.push_back(mask_of(st, sh)); std::sort(got.begin(), got.end());
    auto exp = c.simplices();
    if (got != exp) {
      std::string d;
      for (Mask x : exp) if (!std::binary_search(got.begin(), got.end(), x)) { d += " missing " + c.str(x); break; }
      for (Mask x : got) if (!std::binary_search(exp.begin(), exp.end(), x)) { d += " unexpected " + c.str(x); break; }
      fail("route", route + ": " + std::to_string(got.size()) + " simplices, clique-complex model " + std::to_string(exp.size()) + ":" + d);
    }
    if (HAS_F) for (auto sh : st.complex_simplex_range()) { Mask x = mask_of(st, sh); ST_REQ(feq((double)st.filtration(sh), c.val[x]), "route", route + ": value of " + c.str(x) + " is " + std::to_string((double)st.filtration(sh)) + ", model " + std::to_string(c.val[x])); }
    ST_REQ(st.dimension() == c.dimension(), "route", route + ": dimension()=" + std::to_string(st.dimension()) + " model " + std::to_string(c.dimension()));
    ST_REQ(st.num_simplices() == exp.size(), "route", route + ": num_simplices");
  }
  Adversarial_graph adversarial(const Graph& g, uint64_t seed) {
    sim::Rng rng(seed | 1); Adversarial_graph ag;
    std::vector<int> vi; for (int k = 0; k < m.n; ++k) if (g.vv[k] >= 0) vi.push_back(k); rng.shuffle(vi);
    for (int k : vi) { ag.verts.push_back(lab[k]); ag.vf.push_back(HAS_F ? g.vv[k] : 0); }
    for (int a = 0; a < m.n; ++a) for (int b = a + 1; b < m.n; ++b) if (g.ee[a][b] >= 0) {
      bool flip = rng.chance(1, 2); double f = HAS_F ? g.ee[a][b] : 0;
      ag.es.push_back({flip ? (int)lab[b] : (int)lab[a], flip ? (int)lab[a] : (int)lab[b], f});
      if (rng.chance(1, 5)) { ag.es.push_back({flip ? (int)lab[a] : (int)lab[b], flip ? (int)lab[b] : (int)lab[a], f}); r.count("fault.graph_duplicate_edge"); }
    }
    rng.shuffle(ag.es); r.count("fault.graph_reordered_delivery");
    return ag;
  }
  Complex clique(const Graph& g, int dmax, const std::function<bool(Mask)>& blocked = nullptr) const {
    Graph gg = g; if (!HAS_F) { for (auto& v : gg.vv) if (v >= 0) v = 0; for (auto& row : gg.ee) for (auto& e : row) if (e >= 0) e = 0; }
    return model::clique_complex(m.labels, gg.vv, gg.ee, dmax, blocked);
  }

  void run_flag() {
    Graph g = graph_from_plan();
    // incremental route: items (vertices and edges) are delivered by the ops in plan order; whatever is left is delivered by `finish`
    struct Item { int a, b; double f; };
    std::vector<Item> pending_v, pending_e;
    for (int k = 0; k < m.n; ++k) if (g.vv[k] >= 0) pending_v.push_back({k, k, g.vv[k]});
    for (int a = 0; a < m.n; ++a) for (int b = a + 1; b < m.n; ++b) if (g.ee[a][b] >= 0) pending_e.push_back({a, b, g.ee[a][b]});
    int dm = (int)p.geti("flag_dim", 2);  // -1: unlimited
    ST inc; Graph delivered; delivered.vv.assign(m.n, -1); delivered.ee.assign(m.n, std::vector<double>(m.n, -1));
    bool in_order = true; double last_f = -1;
    std::vector<SH> added;
    auto deliver = [&](std::vector<Item>& from, size_t idx) {
      if constexpr (LINK) {
        Item it = from[idx];
        if (it.a != it.b && (delivered.vv[it.a] < 0 || delivered.vv[it.b] < 0)) { r.skipped(); return; }  // never generated: edge before its endpoints (stays pending)
        from.erase(from.begin() + idx);
        Complex before = clique(delivered, dm < 0 ? 31 : std::max(dm, 1));
        if (dm == 0) before.prune_above_dim(0);
        if (it.a == it.b) delivered.vv[it.a] = it.f; else delivered.ee[it.a][it.b] = it.f;
        if (it.f < last_f) in_order = false;
        last_f = std::max(last_f, it.f);
        size_t k0 = added.size();
        bool swap_uv = (h2((uint64_t)p.geti("graph_seed"), (uint64_t)(it.a * 31 + it.b)) & 1);
        inc.insert_edge_as_flag(swap_uv ? lab[it.b] : lab[it.a], swap_uv ? lab[it.a] : lab[it.b], (FV)(HAS_F ? it.f : 0), dm, added);
        Complex after = clique(delivered, dm < 0 ? 31 : std::max(dm, 1));
        if (dm == 0) after.prune_above_dim(0);
        // delta = exactly the simplices created, each once, handles valid
        std::vector<Mask> delta; for (size_t k = k0; k < added.size(); ++k) delta.push_back(mask_of(inc, added[k]));
        std::sort(delta.begin(), delta.end());
        ST_REQ(std::adjacent_find(delta.begin(), delta.end()) == delta.end(), "delta", "added_simplices reports a simplex twice when inserting " + m.str((1u << it.a) | (1u << it.b)));
        std::vector<Mask> exp; for (Mask x : after.simplices()) if (!before.has(x)) exp.push_back(x);
        if (delta != exp) {
          std::string d; for (Mask x : exp) if (!std::binary_search(delta.begin(), delta.end(), x)) { d += " not reported: " + m.str(x); break; }
          for (Mask x : delta) if (!std::binary_search(exp.begin(), exp.end(), x)) { d += " wrongly reported: " + m.str(x); break; }
          fail("delta", "added_simplices of insert_edge_as_flag(" + m.str((1u << it.a) | (1u << it.b)) + ", dim_max " + std::to_string(dm) + ") has " + std::to_string(delta.size()) + " simplices, expected " + std::to_string(exp.size()) + ":" + d);
        }
        // per-step invariant: the tree is the clique complex of what was delivered so far (as a set; values after monotonisation when out of order)
        std::vector<Mask> got; for (auto sh : inc.complex_simplex_range()) got.push_back(mask_of(inc, sh)); std::sort(got.begin(), got.end());
        ST_REQ(got == after.simplices(), "route", "after insert_edge_as_flag(" + m.str((1u << it.a) | (1u << it.b)) + ") the tree has " + std::to_string(got.size()) + " simplices, clique complex of the delivered edges " + std::to_string(after.size()));
        if (in_order && HAS_F) for (auto sh : inc.complex_simplex_range()) { Mask x = mask_of(inc, sh); ST_REQ(feq((double)inc.filtration(sh), after.val[x]), "route", "in-order flag insertion: value of " + m.str(x) + " is " + std::to_string((double)inc.filtration(sh)) + " model " + std::to_string(after.val[x])); }
        r.mutated = true; r.state(after.hash(HAS_F));
      } else { (void)from; (void)idx; r.skipped(); }
    };
    for (size_t i = 0; i < p.ops.size(); ++i) {
      const sim::Op& op = p.ops[i];
      r.begin_op((int)i, op);
      if (op.name == "deliver_v") { if (pending_v.empty()) { r.skipped(); continue; } deliver(pending_v, op.arg(0) % pending_v.size()); }
      else if (op.name == "deliver_e") { if (pending_e.empty()) { r.skipped(); continue; } deliver(pending_e, op.arg(0) % pending_e.size()); }
      else if (op.name == "deliver_next") {
        // the next item in filtration order (vertices before edges on ties)
        size_t bv = 0, be = 0; for (size_t k = 1; k < pending_v.size(); ++k) if (pending_v[k].f < pending_v[bv].f) bv = k; for (size_t k = 1; k < pending_e.size(); ++k) if (pending_e[k].f < pending_e[be].f) be = k;
        if (pending_v.empty() && pending_e.empty()) { r.skipped(); continue; }
        if (!pending_v.empty() && (pending_e.empty() || pending_v[bv].f <= pending_e[be].f)) deliver(pending_v, bv); else deliver(pending_e, be);
      } else if (op.name == "finish") {
        const int d = (int)op.arg(0) % 6;  // dimension of the one-shot routes
        const uint64_t seed = (uint64_t)op.arg(1);
        if constexpr (LINK) {
          while (!pending_v.empty()) deliver(pending_v, 0);
          while (!pending_e.empty()) deliver(pending_e, 0);
          if (!in_order) { if constexpr (HAS_F) inc.make_filtration_non_decreasing(); r.count("probe.flag_out_of_order"); } else r.count("probe.flag_in_order");
          Complex c = clique(g, dm < 0 ? 31 : std::max(dm, 1)); if (dm == 0) c.prune_above_dim(0);
          compare_with(inc, c, std::string("incremental insert_edge_as_flag (") + (in_order ? "in filtration order" : "any order + make_filtration_non_decreasing") + ", dim_max " + std::to_string(dm) + ")");
          audit_tree(inc, c, seed, true, "flag tree");
          for (SH sh : added) (void)inc.filtration(sh);  // handles reported earlier are still dereferenceable (ASan)
        }
        if constexpr (LINK) {
          // mixed route: part of the graph through insert_graph + expansion, the rest edge by edge into the same tree
          sim::Rng mg(h2(seed, 9) | 1); Graph g1 = g; std::vector<Item> rest;
          for (int a2 = 0; a2 < m.n; ++a2) for (int b2 = a2 + 1; b2 < m.n; ++b2) if (g1.ee[a2][b2] >= 0 && mg.chance(1, 2)) { rest.push_back({a2, b2, g1.ee[a2][b2]}); g1.ee[a2][b2] = -1; }
          mg.shuffle(rest);
          int dmx = dm < 0 ? m.n : dm;
          if (dmx >= 1) {
            ST t; t.insert_graph(adversarial(g1, seed + 11)); t.expansion(dmx);
            std::vector<SH> add2; Graph cur = g1; bool ordered = true; double lastf = -1;
            for (auto& e : g1.ee) for (double f : e) lastf = std::max(lastf, f);
            for (auto& it : rest) {
              Complex before = clique(cur, std::max(dmx, 1)); cur.ee[it.a][it.b] = it.f; Complex after = clique(cur, std::max(dmx, 1));
              if (it.f < lastf) ordered = false;
              lastf = std::max(lastf, it.f);
              size_t k0 = add2.size(); t.insert_edge_as_flag(lab[it.a], lab[it.b], (FV)(HAS_F ? it.f : 0), dm, add2);
              std::vector<Mask> delta; for (size_t k = k0; k < add2.size(); ++k) delta.push_back(mask_of(t, add2[k])); std::sort(delta.begin(), delta.end());
              std::vector<Mask> exp; for (Mask x : after.simplices()) if (!before.has(x)) exp.push_back(x);
              ST_REQ(delta == exp, "delta", "after insert_graph + expansion(" + std::to_string(dmx) + "), insert_edge_as_flag(" + m.str((1u << it.a) | (1u << it.b)) + ") reports " + std::to_string(delta.size()) + " new simplices, expected " + std::to_string(exp.size()));
            }
            if (!ordered) { if constexpr (HAS_F) t.make_filtration_non_decreasing(); }
            Complex cm = clique(g, std::max(dmx, 1));
            compare_with(t, cm, "insert_graph + expansion(" + std::to_string(dmx) + ") followed by insert_edge_as_flag of the remaining edges");
            r.count("probe.flag_mixed_route");
          }
        }
        Complex cd = clique(g, std::max(d, 1));
        { ST a; a.insert_graph(adversarial(g, seed)); a.expansion(d); compare_with(a, cd, "insert_graph + expansion(" + std::to_string(d) + ")"); audit_tree(a, cd, seed + 1, true, "expanded tree"); audit_order(a, cd, seed, 2, "a"); }
        { ST b; b.insert_graph(adversarial(g, seed + 2)); b.expansion_with_blockers(d, [](SH) { return false; });
          compare_with(b, cd, "insert_graph + expansion_with_blockers(" + std::to_string(d) + ", never)"); }
        { // blocking oracle: deterministic predicate on the vertex set; optionally reads the tree re-entrantly
          uint64_t bseed = h2(seed, 5); int rate = (int)p.geti("block_rate", 3); bool reentrant = p.geti("reentrant", 1) != 0;
          auto pred = [&](Mask x) { return (long)(h2(bseed, x) % 10) < rate; };
          ST b; b.insert_graph(adversarial(g, seed + 3));
          long calls = 0;
          b.expansion_with_blockers(d, [&](SH sh) { ++calls; Mask x = mask_of(b, sh); if (reentrant) {
              // the candidate has been inserted before the oracle is called (documented), so every read interface has to show it
              (void)b.filtration(sh); for (auto f : b.boundary_simplex_range(sh)) (void)b.filtration(f);
              ST_REQ(b.find(word(x)) == sh, "route", "blocker oracle: find() of the candidate " + m.str(x) + " does not return the candidate");
              for (auto f : b.boundary_simplex_range(sh)) {
                bool in_cof = false, in_star = false;
                for (auto c : b.cofaces_simplex_range(f, 1)) if (c == sh) in_cof = true;
                for (auto c : b.star_simplex_range(f)) if (c == sh) in_star = true;
                ST_REQ(in_cof && in_star, "star", "blocker oracle: the candidate " + m.str(x) + " is in the tree but is not listed among the cofaces / in the star of its facet " + m.str(mask_of(b, f)));
              }
              r.count("probe.blocker_reads_cofaces");
            } return pred(x); });
          r.count("probe.blocker_calls", calls);
          Complex cb = clique(g, std::max(d, 1), pred); compare_with(b, cb, "insert_graph + expansion_with_blockers(" + std::to_string(d) + ", predicate)");
        }
        if constexpr (HAS_F) { if (p.geti("rips", 1)) check_rips(g, d, seed); }
        r.audited = true;
      } else { r.skipped(); continue; }
    }
  }

  // Rips builders: points on an integer lattice whose threshold graph is the (unweighted) graph of g; values are then exact distances
  void check_rips(const Graph& g, int d, uint64_t seed) {
    // distance-matrix route with arbitrary symmetric values: edge iff distance <= threshold
    int n = m.n; if (!contig) return;  // the Rips builders number the vertices 0..n-1
    double threshold = 2.0;
    std::vector<std::vector<double>> dist(n);
    sim::Rng rng(seed | 1);
    for (int a = 0; a < n; ++a) for (int b = 0; b < a; ++b) { double e = g.ee[b][a]; dist[a].push_back(e >= 0 && g.vv[a] >= 0 && g.vv[b] >= 0 ? std::min(e, threshold) : threshold + 0.25 * (double)(1 + rng.below(4))); }
    Gudhi::rips_complex::Rips_complex<FV> rc(dist, (FV)threshold);
    ST t; rc.create_complex(t, d);
    std::vector<double> vv(n, 0); std::vector<std::vector<double>> ee(n, std::vector<double>(n, -1));
    for (int a = 0; a < n; ++a) for (int b = 0; b < a; ++b) if (dist[a][b] <= threshold) ee[b][a] = dist[a][b];
    Complex c = model::clique_complex(m.labels, vv, ee, std::max(d, 1));
    compare_with(t, c, "Rips_complex(distance matrix) + create_complex(" + std::to_string(d) + ")");
    r.count("probe.rips_matrix");
    // point-cloud route: points on a lattice, Euclidean distance, threshold such that comparisons are exact
    std::vector<std::vector<double>> pts; for (int a = 0; a < n; ++a) pts.push_back({(double)rng.below(4), (double)rng.below(4)});
    double th = (double)rng.range(1, 3);
    Gudhi::rips_complex::Rips_complex<FV> rp(pts, (FV)th, Gudhi::Euclidean_distance());
    ST tp; rp.create_complex(tp, d);
    std::vector<std::vector<double>> e2(n, std::vector<double>(n, -1));
    for (int a = 0; a < n; ++a) for (int b = a + 1; b < n; ++b) { double dx = pts[a][0] - pts[b][0], dy = pts[a][1] - pts[b][1]; double dd = (double)(FV)std::sqrt(dx * dx + dy * dy); if ((FV)dd <= (FV)th) e2[a][b] = dd; }
    Complex cp = model::clique_complex(m.labels, vv, e2, std::max(d, 1));
    compare_with(tp, cp, "Rips_complex(points) + create_complex(" + std::to_string(d) + ")");
    r.count("probe.rips_points");
  }

  void run() {
    if (p.get("mode") == "flag") run_flag(); else run_history();
  }
#undef ST_REQ
};

template <class Opt> void exec_config(const sim::Plan& p, sim::Run& r, Obs& o, const char* name) { Exec<Opt> e(p, r, o, name); e.run(); }

}  // namespace sth
