// Templated executor of the pm_hist engine (C05, C06, C08): a persistence Matrix<Options> (reduced boundary matrix R only,
// R/U decomposition, or compatible chain basis) driven by a plan of insertions, removals, vine swaps and reads, checked
// after every step against the filtration model M3 (independent reduction) and the linear-algebra kernel M4.
#pragma once
#include "../sim/core.h"
#include "../models/filtration.h"
#include <gudhi/Matrix.h>
#include <gudhi/persistence_matrix_options.h>
#include <map>
#include <set>

namespace pmh {

using namespace Gudhi::persistence_matrix;
using model::Filtration; using model::Filt_cell; using model::Bar; using model::Vec; using model::Mat;

struct Obs { std::vector<std::string> items; bool tainted = false; };
typedef void (*ExecFn)(const sim::Plan&, sim::Run&, Obs&);
struct Config { std::string group; std::string name; ExecFn exec; };
std::vector<Config>& configs();
struct Register { Register(const Config& c) { configs().push_back(c); } };

enum { BND = 0, RU = 1, CHAIN = 2 };

template <Column_types ct, bool z2, int fam, int idx, bool rows, bool intr, bool remrows, bool mapc, bool barcode, bool rep, bool vine>
struct HOpt : Default_options<ct, z2> {
  static const Column_indexation_types column_indexation_type = idx == 0 ? Column_indexation_types::CONTAINER : idx == 1 ? Column_indexation_types::POSITION : Column_indexation_types::IDENTIFIER;
  static const bool has_row_access = rows; static const bool has_intrusive_rows = intr; static const bool has_removable_rows = remrows;
  static const bool has_map_column_container = mapc; static const bool has_removable_columns = true;
  static const bool is_of_boundary_type = fam != CHAIN;
  static const bool has_column_pairings = barcode; static const bool has_vine_update = vine; static const bool can_retrieve_representative_cycles = rep;
  static const int family = fam; static const int indexing = idx;
};

inline std::string bars_str(const std::vector<Bar>& b) { std::string s; for (auto& x : b) s += "[" + std::to_string(x.dim) + "]" + std::to_string(x.birth) + "-" + (x.death < 0 ? std::string("inf") : std::to_string(x.death)) + " "; return s; }
inline std::string vec_str(const Vec& v) { std::string s = "("; for (size_t i = 0; i < v.size(); ++i) { if (i) s += " "; s += std::to_string(v[i]); } return s + ")"; }

template <class Opt>
struct Exec {
  typedef Matrix<Opt> M;
  static constexpr bool Z2 = Opt::is_z2;
  static constexpr int FAM = Opt::family, IDX = Opt::indexing;
  static constexpr bool BARCODE = Opt::has_column_pairings, REP = Opt::can_retrieve_representative_cycles, VINE = Opt::has_vine_update;
  static constexpr bool HAS_U = FAM == RU;
  static constexpr bool MAPC = Opt::has_map_column_container;
  static constexpr bool ROWS = Opt::has_row_access;
  static constexpr bool CAN_REMOVE_LAST = FAM != CHAIN || MAPC || !VINE;
  static constexpr unsigned NULLV = (unsigned)-1;

  const sim::Plan& p; sim::Run& r; Obs& obs; std::string cfg;
  unsigned P; model::Pool pool; Filtration F; std::vector<unsigned> unit;  // unit[pool index]: rescaling of the basis element
  int next_id = 0; bool default_ids_ok = true; bool had_removal = false;
  int cmp_ctx = -1;  // position of the vine swap in progress (for the comparators of the configurations without stored barcode)
  std::vector<int> rowids;  // boundary-type matrices: row identifier attached to each position (stays with the position under vine swaps)
  std::unique_ptr<M> mp;

  Exec(const sim::Plan& p_, sim::Run& r_, Obs& o_, const std::string& c) : p(p_), r(r_), obs(o_), cfg(c), pool((int)p_.geti("nv", 4), (int)p_.geti("maxdim", 3)) {
    P = Z2 ? 2 : (unsigned)p.geti("p", 5); F.p = P;
    sim::Rng g((uint64_t)p.geti("unit_seed", 1) | 1);
    for (size_t i = 0; i < pool.cells.size(); ++i) unit.push_back(Z2 || !p.geti("rescale", 1) ? 1u : 1u + (unsigned)g.below(P - 1));
  }
  [[noreturn]] void fail(const std::string& oracle, const std::string& d) { r.fail(oracle, "[" + cfg + "] " + d); }
#define PH_REQ(cond, oracle, d) do { if (!(cond)) fail((oracle), (d)); } while (0)

  // coefficient of facet f in the boundary of cell c in the rescaled basis: u_c * sign * u_f^{-1}
  unsigned coeff(int c, int f, int sign) const { uint64_t s = sign > 0 ? 1 : P - 1; return (unsigned)(((uint64_t)unit[c] * s % P) * model::zp_inv(unit[f], P) % P); }

  // ---------------------------------------------------------------- addressing
  // index to pass as "columnIndex" for the cell at position pos
  unsigned col_of_pos(int pos) {
    if constexpr (FAM != CHAIN) { if constexpr (IDX == 2) return (unsigned)F.cells[pos].id; else return (unsigned)pos; }
    else { if constexpr (IDX == 0) return mp->get_column_with_pivot((unsigned)F.cells[pos].id); else if constexpr (IDX == 1) return (unsigned)pos; else return (unsigned)F.cells[pos].id; }
  }
  // row index used by the matrix for the cell at position pos
  unsigned row_of_pos(int pos) const {
    if constexpr (FAM == CHAIN) return (unsigned)F.cells[pos].id;
    else return (unsigned)rowids[pos];  // boundary matrices: rows keep the id sequence of the positions
  }
  std::vector<int> sorted_ids() const { std::vector<int> v; for (auto& c : F.cells) v.push_back(c.id); std::sort(v.begin(), v.end()); return v; }
  int pos_of_row(unsigned row) const {
    if constexpr (FAM == CHAIN) return F.pos_of_id((int)row);
    else { for (size_t k = 0; k < rowids.size(); ++k) if (rowids[k] == (int)row) return (int)k; return -1; }
  }
  unsigned max_row() const { unsigned mx = 0; for (auto& c : F.cells) mx = std::max(mx, (unsigned)c.id); for (int x : rowids) mx = std::max(mx, (unsigned)x); return mx; }

  template <class Col> Vec dense_by_pos(const Col& col, bool rows_are_positions = false) {
    Vec v(F.size(), 0);
    if (rows_are_positions) { auto content = col.get_content(F.size()); for (int k = 0; k < F.size(); ++k) v[k] = (unsigned)content[k] % P; return v; }
    auto content = col.get_content((int)max_row() + 1);
    for (unsigned row = 0; row < content.size(); ++row) if (content[row] != 0u) {
      int pos = pos_of_row(row);
      PH_REQ(pos >= 0, "ident", "a column has an entry in row " + std::to_string(row) + " which is the row of no cell");
      v[pos] = (unsigned)content[row] % P;
    }
    return v;
  }
  static int low(const Vec& v, unsigned P_) { for (int i = (int)v.size() - 1; i >= 0; --i) if (v[i] % P_) return i; return -1; }
  Vec apply_boundary(const Mat& B, const Vec& chain) const {  // B is rows x cols
    int n = (int)chain.size(); Vec d(n, 0);
    for (int j = 0; j < n; ++j) if (chain[j] % P) for (int i = 0; i < n; ++i) if (B[i][j]) d[i] = (unsigned)((d[i] + (uint64_t)B[i][j] * chain[j]) % P);
    return d;
  }

  std::vector<Bar> read_barcode() {
    std::vector<Bar> out;
    for (const auto& b : mp->get_current_barcode()) out.push_back({(int)b.dim, (int)b.birth, b.death == NULLV ? -1 : (int)b.death});
    std::sort(out.begin(), out.end());
    return out;
  }

  // ---------------------------------------------------------------- audits
  void audit_barcode(const char* when) {
    if constexpr (BARCODE) {
      auto got = read_barcode(); auto exp = F.barcode();
      PH_REQ(got == exp, "barcode", std::string(when) + ": barcode " + bars_str(got) + "model " + bars_str(exp));
      obs.items.push_back(bars_str(got));
      r.log(sim::hash_str(bars_str(got)));
    }
  }

  void audit_identities() {
    const int n = F.size(); if (n == 0) return;
    Mat B = F.boundary_matrix();
    if constexpr (FAM == CHAIN) {
      std::vector<Vec> C(n); std::vector<unsigned> colidx(n); std::vector<int> piv(n);
      std::set<unsigned> seen_cols;
      for (int k = 0; k < n; ++k) {
        colidx[k] = col_of_pos(k);
        PH_REQ(seen_cols.insert(colidx[k]).second, "pivot-map", "two cells map to the same column");
        const auto& col = mp->get_column(colidx[k]);
        C[k] = dense_by_pos(col);
        unsigned pv = mp->get_pivot(colidx[k]);
        PH_REQ(pv == (unsigned)F.cells[k].id, "pivot-map", "get_pivot of the column of cell " + std::to_string(F.cells[k].id) + " is " + std::to_string(pv));
        // the leading (youngest) cell of the chain is its pivot
        PH_REQ(low(C[k], P) == k, "ident-chain", "chain column of the cell at position " + std::to_string(k) + " has leading cell at position " + std::to_string(low(C[k], P)) + ": " + vec_str(C[k]));
        PH_REQ(!mp->is_zero_column(colidx[k]), "ident-chain", "is_zero_column true for a chain column");
        PH_REQ(mp->get_column_dimension(colidx[k]) == F.cells[k].dim, "ident-chain", "get_column_dimension=" + std::to_string(mp->get_column_dimension(colidx[k])) + " for a cell of dimension " + std::to_string(F.cells[k].dim));
        // all cells of the chain have the dimension of the pivot
        for (int i = 0; i < n; ++i) if (C[k][i]) PH_REQ(F.cells[i].dim == F.cells[k].dim, "ident-chain", "chain column mixes dimensions");
      }
      // pairing taken from the (independently computed) barcode of the current order: the chain of a death cell is sent by the
      // boundary onto a non-zero multiple of the chain of its birth cell; every other chain is a cycle
      std::vector<int> partner(n, -1), is_death(n, 0);
      for (auto& b : F.barcode()) if (b.death >= 0) { partner[b.death] = b.birth; partner[b.birth] = b.death; is_death[b.death] = 1; }
      for (int k = 0; k < n; ++k) {
        const auto& col = mp->get_column(colidx[k]);
        Vec d = apply_boundary(B, C[k]);
        PH_REQ(col.is_paired() == (partner[k] >= 0), "ident-chain", "is_paired()=" + std::to_string(col.is_paired()) + " for the chain at position " + std::to_string(k) + " but the cell is " + (partner[k] >= 0 ? "paired" : "unpaired") + " in the barcode");
        if (!is_death[k]) { PH_REQ(model::is_zero(d, P), "ident-chain", std::string(partner[k] >= 0 ? "older chain of a pair" : "unpaired chain") + " (position " + std::to_string(k) + ") is not a cycle: boundary " + vec_str(d)); }
        else {
          int kq = partner[k]; bool mult = false;
          for (unsigned c = 1; c < P && !mult; ++c) { bool eq = true; for (int i = 0; i < n; ++i) if (d[i] != (unsigned)((uint64_t)c * C[kq][i] % P)) { eq = false; break; } mult = eq; }
          PH_REQ(mult, "ident-chain", "boundary of the paired chain at position " + std::to_string(k) + " is " + vec_str(d) + ", not a non-zero multiple of its partner " + vec_str(C[kq]));
        }
      }
      // the chains form a basis: distinct leading cells (checked above) covering all cells
    } else {
      std::vector<Vec> R(n), U(n);
      std::map<int, int> pivot_owner;
      for (int k = 0; k < n; ++k) {
        unsigned ci = col_of_pos(k);
        R[k] = dense_by_pos(mp->get_column(ci));
        int l = low(R[k], P);
        PH_REQ(mp->is_zero_column(ci) == (l < 0), "ident-R", "is_zero_column(" + std::to_string(ci) + ")=" + std::to_string(mp->is_zero_column(ci)) + " but R column is " + vec_str(R[k]));
        if (l >= 0) { PH_REQ(!pivot_owner.count(l), "ident-R", "R is not reduced: columns at positions " + std::to_string(pivot_owner[l]) + " and " + std::to_string(k) + " have the same lowest entry (position " + std::to_string(l) + ")"); pivot_owner[l] = k; }
        unsigned pv = mp->get_pivot(ci);
        if (l < 0) PH_REQ(pv == NULLV, "pivot-map", "get_pivot of a zero column is " + std::to_string(pv));
        else PH_REQ(pv == row_of_pos(l), "pivot-map", "get_pivot(" + std::to_string(ci) + ")=" + std::to_string(pv) + " but the lowest entry of the column is in row " + std::to_string(row_of_pos(l)));
        PH_REQ(mp->get_column_dimension(ci) == F.cells[k].dim, "ident-R", "get_column_dimension wrong");
        if constexpr (HAS_U) {
          if (l >= 0) { unsigned back = mp->get_column_with_pivot(row_of_pos(l)); PH_REQ(back == ci, "pivot-map", "get_column_with_pivot(" + std::to_string(row_of_pos(l)) + ")=" + std::to_string(back) + " expected " + std::to_string(ci)); }
          if constexpr (IDX != 2) U[k] = dense_by_pos(mp->get_column(ci, false), true);  // U is built inside the matrix: its rows are positions, not identifiers
        }
      }
      if constexpr (HAS_U && IDX != 2) {
        // the exposed factor is triangular and invertible, and factors the boundary matrix (B = R * U as documented; the code stores the
        // factor transposed-inverted for Z_2 resp. inverted for Z_p: every form that is a factorisation by a triangular invertible matrix is accepted)
        bool upper = true, lower = true, diag = true;
        for (int j = 0; j < n; ++j) { if (U[j][j] % P == 0) diag = false; for (int i = 0; i < n; ++i) if (U[j][i] % P) { if (i > j) upper = false; if (i < j) lower = false; } }
        bool tri_ok = diag && (upper || lower);
        PH_REQ(tri_ok, "ident-U", "the exposed U is not triangular with a non-zero diagonal");
        Mat Rm(n, Vec(n, 0)), Um(n, Vec(n, 0));  // rows x cols
        for (int j = 0; j < n; ++j) for (int i = 0; i < n; ++i) { Rm[i][j] = R[j][i]; Um[i][j] = U[j][i]; }
        Mat Ut(n, Vec(n, 0)); for (int i = 0; i < n; ++i) for (int j = 0; j < n; ++j) Ut[i][j] = Um[j][i];
        bool f1 = model::mul(Rm, Ut, P) == B, f2 = model::mul(B, Um, P) == Rm, f3 = model::mul(Rm, Um, P) == B, f4 = model::mul(B, Ut, P) == Rm;
        if constexpr (Z2 && Opt::column_type == Column_types::VECTOR) { if (had_removal) r.count("probe.ru_vector_U_after_removal"); }
        PH_REQ(f1 || f2 || f3 || f4, "ident-U", "R and the exposed U do not factor the boundary matrix (none of B=R*U, B=R*U^T, B*U=R, B*U^T=R holds)");
        r.count(f3 ? "probe.factor.B=RU" : f1 ? "probe.factor.B=RUt" : f2 ? "probe.factor.BU=R" : "probe.factor.BUt=R");
      }
      if constexpr (!HAS_U) {
        // R alone: every non-zero column is a combination of the boundary columns up to it with a non-zero coefficient on its own:
        // checked through the barcode (audit_barcode) and reducedness above.
      }
    }
    if constexpr (ROWS) audit_rows();
    r.audited = true;
  }

  void audit_rows() {
    // row view agrees with the columns (R for boundary matrices); entries carry MatIdx, which only these schemes expose
    if constexpr (FAM == CHAIN && IDX != 0) return;
    if constexpr (FAM == RU && VINE) {
      // known finding C06-KF3 (same root cause as C09-KF3): swapped column objects keep their own column-index member, so entries created
      // after a vine swap carry the other column's index and the rows list wrong / colliding column indices
      if (had_swap) r.count("probe.ru_rows_after_swap");
    }
    const int n = F.size();
    std::vector<Vec> cols(n); std::vector<unsigned> midx(n);
    for (int j = 0; j < n; ++j) { unsigned ci = col_of_pos(j); cols[j] = dense_by_pos(mp->get_column(ci)); if constexpr (FAM != CHAIN) midx[j] = (unsigned)j; else midx[j] = ci; }
    for (int k = 0; k < n; ++k) {
      unsigned row = row_of_pos(k);
      std::map<unsigned, unsigned> exp; for (int j = 0; j < n; ++j) if (cols[j][k]) exp[midx[j]] = cols[j][k];
      if (exp.empty()) continue;  // a row that never held an entry may not exist in the row container: not queried
      std::map<unsigned, unsigned> got;
      try {
        for (const auto& e : mp->get_row(row)) {
          unsigned v; if constexpr (Z2) v = 1; else v = (unsigned)e.get_element();
          PH_REQ(!got.count(e.get_column_index()), "rowview", "row " + std::to_string(row) + " lists a column twice"); got[e.get_column_index()] = v;
          PH_REQ(e.get_row_index() == row, "rowview", "entry in row " + std::to_string(row) + " says row " + std::to_string(e.get_row_index()));
        }
      } catch (const std::out_of_range&) { PH_REQ(exp.empty(), "rowview", "get_row(" + std::to_string(row) + ") throws although the row has entries"); continue; }
      PH_REQ(got == exp, "rowview", "row " + std::to_string(row) + " lists " + std::to_string(got.size()) + " entries, columns give " + std::to_string(exp.size()) + " (or a value differs)");
    }
  }

  // ---------------------------------------------------------------- representative cycles (C08)
  void audit_cycles() {
    if constexpr (REP && BARCODE) {
      const int n = F.size(); if (n == 0) return;
      if constexpr (FAM == CHAIN) {
        // (fixed finding C08-KF2: the chain flavour walked the identifiers 0..n-1 and indexed its cycle table by identifier)
        bool contiguous = true; for (int k = 0; k < n; ++k) if (F.cells[k].id != k) contiguous = false;
        if (!contiguous) r.count("probe.cycles_with_custom_ids");
      }
      if constexpr (FAM == RU && Z2 && Opt::column_type == Column_types::VECTOR) {
        // known finding C08-KF3: lazily erased entries of VECTOR columns are still seen by the raw iteration of update_representative_cycles
        if (had_removal) r.count("probe.cycles_after_removal_lazy_vector");
      }
      mp->update_representative_cycles();
      const auto& cycles = mp->get_representative_cycles();
      const auto& bars = mp->get_current_barcode();
      PH_REQ(cycles.size() == bars.size(), "cycle", "get_representative_cycles has " + std::to_string(cycles.size()) + " cycles for " + std::to_string(bars.size()) + " bars");
      Mat B = F.boundary_matrix();
      std::vector<Vec> Bcols(n, Vec(n, 0)); for (int j = 0; j < n; ++j) for (int i = 0; i < n; ++i) Bcols[j][i] = B[i][j];
      struct Z { Bar bar; Vec z; };
      std::vector<Z> zs;
      for (const auto& bar : bars) {
        const auto& cyc = mp->get_representative_cycle(bar);
        Bar mb{(int)bar.dim, (int)bar.birth, bar.death == NULLV ? -1 : (int)bar.death};
        Vec z(n, 0); int youngest = -1;
        // RU cycles are read from U, whose rows are positions
        for (auto row : cyc) { int pos = FAM == RU ? ((int)row < n ? (int)row : -1) : pos_of_row((unsigned)row); PH_REQ(pos >= 0, "cycle", "representative cycle contains row " + std::to_string(row) + " which is no cell"); PH_REQ(z[pos] == 0, "cycle", "representative cycle lists a cell twice"); z[pos] = 1; youngest = std::max(youngest, pos);
          PH_REQ(F.cells[pos].dim == mb.dim, "cycle", "representative of a bar of dimension " + std::to_string(mb.dim) + " contains a cell of dimension " + std::to_string(F.cells[pos].dim)); }
        PH_REQ(!cyc.empty(), "cycle", "empty representative cycle");
        PH_REQ(youngest == mb.birth, "cycle-birth", "youngest cell of the representative of bar " + bars_str({mb}) + "is at position " + std::to_string(youngest));
        if constexpr (Z2) {
          Vec d = apply_boundary(B, z);
          if (!model::is_zero(d, P)) {
            r.count("probe.cycle_not_a_cycle");
            fail("cycle", "representative of bar " + bars_str({mb}) + "is not a cycle: " + vec_str(z) + " has boundary " + vec_str(d));
          }
          zs.push_back({mb, z});
        }
      }
      if constexpr (Z2) {
        if (obs.tainted) return;
        // Z(K_{b-1}): kernel of the boundary restricted to the first b cells; B(K_i): span of the first i+1 boundary columns
        auto kernel_basis = [&](int b) { std::vector<Vec> basis; if (b <= 0) return basis;
          // Gaussian elimination on [B_b ; I]: columns c_0..c_{b-1} with tracking
          std::vector<Vec> cols(b), track(b, Vec(n, 0)); for (int j = 0; j < b; ++j) { cols[j] = Bcols[j]; track[j][j] = 1; }
          std::vector<int> owner(n, -1);
          for (int j = 0; j < b; ++j) { int l; while ((l = low(cols[j], 2)) >= 0 && owner[l] >= 0) { for (int i = 0; i < n; ++i) { cols[j][i] ^= cols[owner[l]][i]; track[j][i] ^= track[owner[l]][i]; } } if (l >= 0) owner[l] = j; else basis.push_back(track[j]); }
          return basis; };
        for (auto& zz : zs) {
          int b = zz.bar.birth, d = zz.bar.death;
          std::vector<Vec> gens = kernel_basis(b);
          int last = d < 0 ? n - 1 : d - 1;
          std::vector<Vec> g1 = gens; for (int j = 0; j <= last; ++j) g1.push_back(Bcols[j]);
          PH_REQ(!model::in_span(g1, zz.z, 2), "cycle-life", "representative of bar " + bars_str({zz.bar}) + "is already a combination of older classes (or a boundary) before the death of the bar");
          if (d >= 0) {
            if (FAM == CHAIN) { std::vector<Vec> g2; for (int j = 0; j <= d; ++j) g2.push_back(Bcols[j]); PH_REQ(model::in_span(g2, zz.z, 2), "cycle-life", "chain representative of the finite bar " + bars_str({zz.bar}) + "is not a boundary at its death"); }
            else { std::vector<Vec> g2 = gens; for (int j = 0; j <= d; ++j) g2.push_back(Bcols[j]); PH_REQ(model::in_span(g2, zz.z, 2), "cycle-life", "representative of the finite bar " + bars_str({zz.bar}) + "does not become a combination of older classes at its death"); }
          }
        }
        // at every index the representatives of the bars alive there are independent modulo the boundaries
        for (int i = 0; i < n; ++i) {
          std::vector<Vec> bnd; for (int j = 0; j <= i; ++j) bnd.push_back(Bcols[j]);
          int rb = model::rank_of_columns(bnd, n, 2); int alive = 0;
          for (auto& zz : zs) if (zz.bar.birth <= i && (zz.bar.death < 0 || zz.bar.death > i)) { bnd.push_back(zz.z); ++alive; }
          PH_REQ(model::rank_of_columns(bnd, n, 2) == rb + alive, "cycle-basis", "at index " + std::to_string(i) + " the representatives of the " + std::to_string(alive) + " living bars are not independent modulo boundaries");
        }
      }
      r.count("probe.cycles_checked", (long)zs.size());
      r.audited = true;
    }
  }

  // ---------------------------------------------------------------- operations
  std::vector<int> insertable() const {
    std::vector<int> can;
    for (size_t c = 0; c < pool.cells.size(); ++c) if (!F.has_pool((int)c)) { bool ok = true; for (auto& f : pool.cells[c].bd) if (!F.has_pool(f.first)) ok = false; if (ok) can.push_back((int)c); }
    return can;
  }
  void do_insert(const sim::Op& op) {
    auto can = insertable(); if (can.empty() || F.size() >= (int)p.geti("maxcells", 12)) { r.skipped(); return; }
    if constexpr (FAM == RU && VINE && !MAPC) {
      // (fixed finding C06-KF11: vector-container RU: an insertion that follows a vine swap and a removal was mis-reduced)
      if (had_swap && had_removal) { r.count("probe.ru_vector_insert_after_swap_and_removal"); }
    }
    if constexpr (FAM == CHAIN && VINE) { if (had_swap) { r.count("probe.chain_insert_after_swap"); if (!BARCODE && r.kf("C06-KF6")) { obs.tainted = true; r.skipped(); return; } } }
    int c = can[op.arg(0) % can.size()];
    bool custom = p.geti("custom_ids", 1) != 0 || !default_ids_ok;
    // identifiers must stay strictly above every identifier in use (for boundary-type matrices: every row identifier, which stay with the positions)
    int base = 0; for (auto& c : F.cells) base = std::max(base, c.id + 1); for (int x : rowids) base = std::max(base, x + 1);
    if (!p.geti("reuse_ids", 0)) base = std::max(base, next_id);  // otherwise the identifier of a removed last cell may be used again
    int id = custom ? base + (int)(op.arg(1) % 3) * (int)p.geti("id_gaps", 1) : F.size();
    Filt_cell fc; fc.pool = c; fc.id = id; fc.dim = pool.cells[c].dim;
    for (auto& f : pool.cells[c].bd) fc.bd.push_back({F.id_of_pool(f.first), coeff(c, f.first, f.second)});
    std::sort(fc.bd.begin(), fc.bd.end());
    bool give_dim = op.arg(2) % 2 == 0;  // the dimension may be omitted for simplicial cells
    int dim = give_dim ? fc.dim : -1;
    // what the API gets: faces designated by their current row index (for boundary-type matrices the row identifiers stay with the
    // positions under vine swaps, so a face is designated by the identifier of the position it now occupies; for chains by its own identifier)
    std::vector<std::pair<int, unsigned>> api_bd;
    for (auto& f : fc.bd) api_bd.push_back({(int)row_of_pos(F.pos_of_id(f.first)), f.second});
    std::sort(api_bd.begin(), api_bd.end());
    if constexpr (Z2) { std::vector<unsigned> b; for (auto& f : api_bd) b.push_back((unsigned)f.first); if (custom) mp->insert_boundary((unsigned)id, b, dim); else mp->insert_boundary(b, dim); }
    else { std::vector<std::pair<unsigned, unsigned>> b; for (auto& f : api_bd) b.push_back({(unsigned)f.first, f.second}); if (custom) mp->insert_boundary((unsigned)id, b, dim); else mp->insert_boundary(b, dim); }
    if (had_swap) inserted_after_swap = true;
    F.cells.push_back(fc); rowids.push_back(id); next_id = id + 1; if (custom) default_ids_ok = false;
    r.mutated = true;
  }
  void do_remove_last() {
    if constexpr (CAN_REMOVE_LAST) {
      if (F.size() == 0) { r.skipped(); return; }
      if constexpr (FAM == RU && VINE && MAPC && ROWS) { r.count("probe.ru_map_rows_removal"); if (r.kf("C06-KF5")) { obs.tainted = true; r.skipped(); return; } }
      if constexpr (FAM == RU && VINE && !MAPC) { if (had_swap) { r.count("probe.ru_vector_removal_after_swap"); } }
      if constexpr (FAM == RU && VINE && MAPC && !BARCODE) { if (had_swap) { r.count("probe.ru_map_nobarcode_removal_after_swap"); } }
      if constexpr (FAM == RU && VINE) {
        // C06-KF2 also covers removals: erase_empty_row is called with the position while the maps are keyed by row identifier
        bool ids_are_positions = true; for (int k = 0; k < F.size(); ++k) if (rowids[k] != k) ids_are_positions = false;
        if (!ids_are_positions) r.count("probe.ru_remove_with_custom_ids");
      }
      if constexpr (FAM == CHAIN && VINE) {
        if (had_swap) r.count("probe.chain_remove_last_after_swap");
      }
      // chain matrices without stored barcode keep no positions: after vine swaps remove_last cannot know the last cell (its
      // documentation tells to call remove_maximal_cell with the identifier of the last cell and an empty hint instead)
      if constexpr (FAM == CHAIN && VINE && !BARCODE && MAPC && IDX != 1) mp->remove_maximal_cell((unsigned)F.cells.back().id, std::vector<unsigned>{});
      else mp->remove_last();
      int id = F.cells.back().id; F.cells.pop_back(); rowids.pop_back(); default_ids_ok = false; had_removal = true;
      (void)id;
      r.mutated = true; r.count("probe.remove_last");
    } else r.skipped();
  }

  void run() {
    bool reserve = p.geti("reserve", 1) != 0;
    if constexpr (FAM == CHAIN && VINE && !BARCODE) {
      // seam S8: without a stored barcode the matrix asks the caller to compare the births / deaths of the bars of two columns.
      // The arguments are column indices (MatIdx) of the underlying chain matrix (the documentation said positions; the code and
      // its client, the zigzag module, use column indices: the harness follows the code, see DESIGN 10.3). With container indexing the caller can
      // translate them with get_pivot, as the zigzag module does (re-entrant read while the swap is in progress). Behind an
      // overlay (position / identifier indexing) a column index means nothing to the caller: there the comparator answers for
      // the two positions of the swap in progress, in the order of the call.
      auto bar_at = [this](int pos) { for (auto& b : F.barcode()) if (b.birth == pos || b.death == pos) return b; return Bar{-1, -1, -1}; };
      auto bars_of_args = [this, bar_at](unsigned a, unsigned b) -> std::pair<Bar, Bar> {
        if constexpr (IDX == 0) return {bar_at(F.pos_of_id((int)mp->get_pivot(a))), bar_at(F.pos_of_id((int)mp->get_pivot(b)))};
        else { (void)a; (void)b; if (cmp_ctx < 0) r.fail("harness", "comparator called outside a vine swap of the harness"); return {bar_at(cmp_ctx), bar_at(cmp_ctx + 1)}; }
      };
      std::function<bool(unsigned, unsigned)> birth_cmp = [this, bars_of_args](unsigned a, unsigned b) { r.count("probe.comparator_calls"); auto bb = bars_of_args(a, b); return bb.first.birth < bb.second.birth; };
      std::function<bool(unsigned, unsigned)> death_cmp = [this, bars_of_args](unsigned a, unsigned b) { r.count("probe.comparator_calls"); auto bb = bars_of_args(a, b); auto x = bb.first.death, y = bb.second.death; if (x < 0) return false; if (y < 0) return true; return x < y; };
      mp.reset(new M(reserve ? 32u : 0u, birth_cmp, death_cmp, P));
    } else {
      if (reserve) mp.reset(new M(32, P)); else { mp.reset(new M()); if constexpr (!Z2) mp->set_characteristic(P); }
    }
    bool modified_since_barcode = false;
    for (size_t i = 0; i < p.ops.size(); ++i) {
      const sim::Op& op = p.ops[i];
      r.begin_op((int)i, op);
      const std::string& nm = op.name;
      if (nm == "ins") { do_insert(op); modified_since_barcode = true; }
      else if (nm == "rm_last") { do_remove_last(); modified_since_barcode = true; }
      else if (nm == "audit") {
        if constexpr (FAM == BND) {
          // R only: the barcode may be read once, after the last modification (documented); columns are reduced by that read
          if (i + 1 == p.ops.size()) { audit_barcode("final"); audit_identities(); }
        } else { audit_barcode("audit"); audit_identities(); }
      } else if (nm == "cycles") audit_cycles();
      else if (!vine_op(op)) { r.skipped(); continue; }
      r.state(F.hash());
    }
    (void)modified_since_barcode;
  }
  // ---------------------------------------------------------------- vineyard operations (C06)
  static std::vector<Bar> exchanged(std::vector<Bar> b, int i) {
    for (auto& x : b) { if (x.birth == i) x.birth = i + 1; else if (x.birth == i + 1) x.birth = i; if (x.death == i) x.death = i + 1; else if (x.death == i + 1) x.death = i; }
    std::sort(b.begin(), b.end()); return b;
  }
  // one transposition of the cells at positions i, i+1 through the public API, with all its checks; false if a fence skipped it
  bool swap_at(int i, bool z1) {
    if constexpr (!VINE) { (void)i; (void)z1; return false; }
    else {
      const int n = F.size();
        auto before = F.barcode(); auto exch = exchanged(before, i);
        if constexpr (FAM == CHAIN && !BARCODE) {
          r.count("probe.chain_swap_with_comparators");
          // known finding C06-KF10 (narrow): without stored barcode the matrix decides whether a paired column is the death of its
          // pair by comparing the two identifiers; wrong as soon as earlier swaps put a pair's identifiers out of filtration order
          bool sign_by_id_wrong = false;
          for (auto& b : before) if (b.death >= 0 && (b.birth == i || b.birth == i + 1 || b.death == i || b.death == i + 1) && F.cells[b.death].id < F.cells[b.birth].id) sign_by_id_wrong = true;
          if (sign_by_id_wrong) { r.count("probe.chain_nobarcode_pair_ids_out_of_order"); if (r.kf("C06-KF10")) { obs.tainted = true; r.skipped(); return false; } }
        }
        // position-indexed API (returns whether the barcode changed) or index-pair API (returns the index of the cell now at the larger position)
        constexpr bool BY_POS = (FAM != CHAIN && IDX != 2) || (FAM == CHAIN && IDX == 1);
        unsigned ci = col_of_pos(i), cj = col_of_pos(i + 1);
        if (z1) {
          // precondition of the z = 1 shortcut: the swap is not a plain transposition
          bool ok = F.cells[i].dim == F.cells[i + 1].dim;
          if constexpr (FAM != CHAIN) {
            if constexpr (IDX == 2) ok = false;
            else {
              if (ok) { bool ip = mp->is_zero_column(ci), jp = mp->is_zero_column(cj); if (!(ip && jp)) ok = !mp->is_zero_entry(ci, (unsigned)(i + 1), false); }
            }
          } else { if (ok) ok = !mp->is_zero_entry(cj, (unsigned)F.cells[i].id); }
          if (!ok) { r.skipped(); return false; }
          r.count("probe.swap_z_eq_1");
        }
        bool ret_bool = false; unsigned ret_idx = 0;
        cmp_ctx = i;
        if constexpr (BY_POS) ret_bool = z1 ? mp->vine_swap_with_z_eq_1_case((unsigned)i) : mp->vine_swap((unsigned)i);
        else ret_idx = z1 ? mp->vine_swap_with_z_eq_1_case(ci, cj) : mp->vine_swap(ci, cj);
        cmp_ctx = -1;
        std::swap(F.cells[i], F.cells[i + 1]);
        last_swap = i; had_swap = true; r.mutated = true;
        auto after = F.barcode();
        r.count(after == exch ? (after == before ? "probe.swap_degenerate" : "probe.swap_bars_follow_cells") : "probe.swap_bars_exchanged");
        if constexpr (BARCODE) { auto got = read_barcode(); PH_REQ(got == after, "barcode", "after the transposition of positions " + std::to_string(i) + "," + std::to_string(i + 1) + ": barcode " + bars_str(got) + "rebuilt from scratch " + bars_str(after)); }
        if constexpr (BY_POS) {
          // truthfulness of the returned value against the rebuilt barcode
          bool claim_ok = ret_bool ? (after == exch) : (after == before);
          if constexpr (FAM == CHAIN) { if (!claim_ok && inserted_after_swap) { r.count("probe.chain_untruthful_after_insertion"); if (r.kf("C06-KF8")) claim_ok = true; } }
          PH_REQ(claim_ok, "truth", std::string("vine_swap returned ") + (ret_bool ? "true" : "false") + " but the barcode went from " + bars_str(before) + "to " + bars_str(after) + "(positions " + std::to_string(i) + "," + std::to_string(i + 1) + ")");
          r.log((uint64_t)ret_bool);
        } else {
          unsigned cell_id;
          if constexpr (FAM == CHAIN && IDX == 0) cell_id = mp->get_pivot(ret_idx); else cell_id = ret_idx;
          if constexpr (FAM == RU && IDX == 2) {
            // known finding C06-KF1: with identifier indexing the RU overlay answers with the other cell when the barcode did not change
            if ((int)cell_id == F.cells[i].id && after == before) { r.count("probe.ru_id_swap_return_other_cell"); if (r.kf("C06-KF1")) return false; }
          }
          PH_REQ((int)cell_id == F.cells[i + 1].id, "truth", "vine_swap returned index " + std::to_string(ret_idx) + " (cell " + std::to_string(cell_id) + ") but the cell now at the larger position is " + std::to_string(F.cells[i + 1].id));
        }
        return true;
    }
  }
  bool vine_op(const sim::Op& op) {
    if constexpr (!VINE) { (void)op; return false; }
    else {
      const int n = F.size();
      if (op.name == "swap" || op.name == "swap_z1") {
        std::vector<int> adm; for (int i = 0; i + 1 < n; ++i) if (!F.is_face(i, i + 1)) adm.push_back(i);
        if (adm.empty()) { r.skipped(); return true; }
        if constexpr (FAM == RU) {
          // (fixed finding C06-KF2: RU vine swaps mixed row identifiers and positions (rows of U, pivot table) when they differ)
          bool ids_are_positions = true; for (int k = 0; k < n; ++k) if (rowids[k] != k) ids_are_positions = false;
          if (!ids_are_positions) r.count("probe.ru_swap_with_custom_ids");
        }
        if constexpr (FAM == RU && !BARCODE) {
          // (fixed finding C06-KF12: without stored barcode the RU matrix threw from its pivot table during swaps)
          r.count("probe.ru_map_nobarcode_swap");
        }
        int i = adm[op.arg(0) % adm.size()];
        if (op.arg(1) % 3 == 0 && std::find(adm.begin(), adm.end(), last_swap) != adm.end()) i = last_swap;  // revisit the same pair
        swap_at(i, op.name == "swap_z1");
        return true;
      }
      if (op.name == "rm_max") {
        std::vector<int> cand; for (int k = 0; k < n; ++k) if (!F.has_coface(k)) cand.push_back(k);
        if (cand.empty()) { r.skipped(); return true; }
        if constexpr (FAM == RU) {
          bool ids_are_positions = true; for (int q = 0; q < n; ++q) if (rowids[q] != q) ids_are_positions = false;
          if (!ids_are_positions) r.count("probe.ru_remove_maximal_with_custom_ids");
        }
        int k = cand[op.arg(0) % cand.size()];
        if (op.arg(1) % 2 == 0 && last_swap >= 0 && last_swap + 1 < n && !F.has_coface(last_swap + 1)) k = last_swap + 1;  // right after a swap involving it
        if constexpr (FAM == RU && VINE && !MAPC) { if (had_swap || k != n - 1) { r.count("probe.ru_vector_removal_after_swap"); } }
        if constexpr (FAM == RU && VINE && MAPC && !BARCODE) { if (had_swap || k != n - 1) { r.count("probe.ru_map_nobarcode_remove_maximal"); } }
        if constexpr (FAM == CHAIN) { if (had_swap || k != n - 1) r.count("probe.chain_remove_maximal_after_swap"); }
        if constexpr (FAM == CHAIN && IDX == 1) {
          // known finding C06-KF4: the position overlay does not follow the column exchanges done while the cell is moved to the end
          if (k != n - 1) { r.count("probe.chain_pos_remove_inner"); if (r.kf("C06-KF4")) { obs.tainted = true; r.skipped(); return true; } }
        }
        if constexpr (FAM == RU && VINE && MAPC && ROWS) { r.count("probe.ru_map_rows_removal"); if (r.kf("C06-KF5")) { obs.tainted = true; r.skipped(); return true; } }
        if constexpr (FAM == CHAIN && !BARCODE && MAPC) {
          // Without stored barcode the matrix keeps no positions. The documented way (and what the zigzag module does) is to move the
          // cell to the end with vine swaps and to remove it with remove_maximal_cell(id, {}): done here swap by swap, which also
          // gives the comparators the position of the swap in progress.
          for (int j = k; j + 1 < n; ++j) if (!swap_at(j, false)) return true;
          if constexpr (IDX == 1) mp->remove_last(); else mp->remove_maximal_cell((unsigned)F.cells[n - 1].id, std::vector<unsigned>{});
          F.cells.pop_back(); if (!rowids.empty()) rowids.pop_back();
          default_ids_ok = false; had_removal = true; last_swap = -1; r.mutated = true;
          r.count(k == n - 1 ? "probe.remove_maximal_last" : "probe.remove_maximal_inner");
          return true;
        }
        bool done = false;
        if (k != n - 1) had_swap = true;  // moving the cell to the end is done with vine swaps
        if constexpr (FAM != CHAIN) { mp->remove_maximal_cell(col_of_pos(k)); done = true; }
        else if constexpr (MAPC) {
          if constexpr (IDX == 1) { if constexpr (BARCODE) { mp->remove_maximal_cell((unsigned)k); done = true; } }
          else {
            bool with_hint = op.arg(2) % 2 == 0 || !BARCODE;
            if (with_hint) { std::vector<unsigned> later; for (int j = k + 1; j < n; ++j) later.push_back((unsigned)F.cells[j].id); mp->remove_maximal_cell((unsigned)F.cells[k].id, later); done = true; r.count("probe.remove_maximal_with_hint"); }
            else if constexpr (BARCODE) { mp->remove_maximal_cell((unsigned)F.cells[k].id); done = true; }
          }
        }
        if (!done) { r.skipped(); return true; }
        F.cells.erase(F.cells.begin() + k); if (!rowids.empty()) rowids.pop_back();  // the row identifiers stay with the positions: the last one goes
        default_ids_ok = false; had_removal = true; last_swap = -1; r.mutated = true;
        r.count(k == n - 1 ? "probe.remove_maximal_last" : "probe.remove_maximal_inner");
        if constexpr (BARCODE) { auto got = read_barcode(); auto exp = F.barcode(); PH_REQ(got == exp, "barcode", "after remove_maximal_cell: barcode " + bars_str(got) + "rebuilt from scratch " + bars_str(exp)); }
        return true;
      }
      return false;
    }
  }
  int last_swap = -1; bool had_swap = false, inserted_after_swap = false;
#undef PH_REQ
};

template <class Opt> void exec_config(const sim::Plan& p, sim::Run& r, Obs& o, const std::string& name) { Exec<Opt> e(p, r, o, name); e.run(); }

}  // namespace pmh
