// Engine `toplex` (C16): Toplex_map and Lazy_toplex_map driven side by side by the same plan, each checked after every
// operation against the abstract-complex model M1.
#include "../sim/core.h"
#include "../models/complex.h"
#include <gudhi/Toplex_map.h>
#include <gudhi/Lazy_toplex_map.h>

using model::Mask; using model::Complex;
typedef std::vector<std::size_t> Word;

namespace {

const char* CLIENTS[] = {"grower", "eraser", "contractor", "auditor"};

sim::Plan generate(const std::string& property, uint64_t subseed, const sim::Tier& tier) {
  sim::Rng rng(subseed);
  sim::Plan p;
  // swarm: universe, label style, op mix, audit frequency
  int n = (int)rng.range(3, tier.thorough() ? 8 : 7);
  std::vector<long> pool;
  int style = (int)rng.below(4);
  long base = style == 0 ? 0 : style == 1 ? 10 : style == 2 ? 1000 : 0;
  long stepmax = style == 0 ? 1 : style == 3 ? 1 : 7;
  long cur = base;
  std::vector<int> labels;
  for (int i = 0; i < n; ++i) { labels.push_back((int)cur); cur += 1 + rng.below(stepmax); }
  p.set("labels", sim::join(labels));
  p.seti("big_label", rng.chance(1, 6) ? 1 : 0);  // last label replaced by a value above 2^32 (Vertex is std::size_t)
  p.seti("max_simplex", rng.range(2, 5));
  int nops = (int)rng.range(4, tier.thorough() ? 70 : 45);
  bool allow_nonmax = rng.chance(3, 4), allow_contract = rng.chance(3, 4), allow_remv = rng.chance(3, 4), allow_indep = rng.chance(1, 3), allow_absent = rng.chance(1, 2);
  int audit_every = (int)rng.range(1, 6);
  int w_ins = (int)rng.range(3, 10), w_rem = (int)rng.range(1, 5), w_con = allow_contract ? (int)rng.range(1, 3) : 0, w_rv = allow_remv ? (int)rng.range(1, 3) : 0;
  bool burst = rng.chance(1, 5);  // many toplexes through one vertex: crosses the lazy cleaning bounds
  for (int i = 0; i < nops; ++i) {
    long k = rng.below(w_ins + w_rem + w_con + w_rv);
    if (k < w_ins) {
      if (allow_indep && rng.chance(1, 4)) p.add(0, "ins_indep", {(long)rng.below(1 << n)});
      else p.add(0, "ins", {(long)rng.below(1 << n)});
      if (burst && rng.chance(1, 2)) for (int j = 0; j < 6; ++j) p.add(0, "ins", {(long)(rng.below(1 << n) | 1)});
    } else if (k < w_ins + w_rem) {
      if (allow_absent && rng.chance(1, 5)) p.add(1, "rem_mask", {(long)rng.below(1 << n)});
      else p.add(1, "rem", {(long)rng.below(1000), allow_nonmax && rng.chance(1, 2) ? 1 : 0});
    } else if (k < w_ins + w_rem + w_con) p.add(2, "contract", {(long)rng.below(n + 1), (long)rng.below(n + 1)});
    else p.add(1, "remv", {(long)rng.below(1000)});
    if (rng.below(audit_every) == 0) p.add(3, "audit", {(long)rng.below(1 << 20)});
  }
  p.add(3, "audit", {0});
  (void)property;
  return p;
}

struct Sys {
  Gudhi::Toplex_map eager;
  Gudhi::Lazy_toplex_map lazy;
  Complex me, ml;  // one model per variant (a contraction may legitimately keep different vertices)
  std::vector<std::size_t> lab;
  Word word(Mask m) const { Word w; for (int i = 0; i < me.n; ++i) if (m >> i & 1) w.push_back(lab[i]); return w; }
};

Mask mask_of_simplex(const Sys& s, const Gudhi::Toplex_map::Simplex& sx, bool& ok) {
  Mask m = 0; ok = true;
  for (auto v : sx) { auto it = std::find(s.lab.begin(), s.lab.end(), v); if (it == s.lab.end()) { ok = false; return 0; } m |= 1u << (it - s.lab.begin()); }
  return m;
}

void audit(Sys& s, sim::Run& r, uint64_t order_seed) {
  r.audited = true;
  int n = s.me.n;
  std::vector<Mask> q; for (Mask m = 1; m <= s.me.full(); ++m) q.push_back(m);
  sim::Rng rng(order_seed ? order_seed : 1); if (order_seed) rng.shuffle(q);  // read order is seeded: lazy reads mutate (cleaning)
  const std::vector<Mask> maxi = s.me.maximal_simplices();
  int cof_budget = 12;  // maximal_cofaces is checked on a seeded sample of the present simplices (first in the shuffled order)
  for (Mask m : q) {
    Word w = s.word(m);
    bool e = s.eager.membership(w), l = s.lazy.membership(w);
    SIM_REQUIRE(r, e == s.me.has(m), "membership-eager", "Toplex_map::membership(" + s.me.str(m) + ")=" + std::to_string(e) + " model=" + std::to_string(s.me.has(m)));
    SIM_REQUIRE(r, l == s.ml.has(m), "membership-lazy", "Lazy_toplex_map::membership(" + s.ml.str(m) + ")=" + std::to_string(l) + " model=" + std::to_string(s.ml.has(m)));
    bool mx = s.eager.maximality(w);
    SIM_REQUIRE(r, mx == s.me.maximal(m), "maximality", "Toplex_map::maximality(" + s.me.str(m) + ")=" + std::to_string(mx) + " model=" + std::to_string(s.me.maximal(m)));
    r.log((uint64_t)(e * 4 + l * 2 + mx));
    // maximal cofaces of a present simplex = the maximal simplices containing it
    if (s.me.has(m) && cof_budget-- > 0) {
      auto cof = s.eager.maximal_cofaces(w);
      std::vector<Mask> got; for (auto& sp : cof) { bool ok; Mask x = mask_of_simplex(s, *sp, ok); SIM_REQUIRE(r, ok, "maximal_cofaces", "foreign vertex in maximal_cofaces(" + s.me.str(m) + ")"); got.push_back(x); }
      std::sort(got.begin(), got.end());
      std::vector<Mask> exp; for (Mask x : maxi) if (model::subset(m, x)) exp.push_back(x);
      SIM_REQUIRE(r, got == exp, "maximal_cofaces", "maximal_cofaces(" + s.me.str(m) + ") has " + std::to_string(got.size()) + " elements, model " + std::to_string(exp.size()));
    }
  }
  // foreign labels are never members
  {
    Word w = {s.lab[0] + 1 == s.lab[n > 1 ? 1 : 0] ? s.lab.back() + 5 : s.lab[0] + 1};
    if (std::find(s.lab.begin(), s.lab.end(), w[0]) == s.lab.end()) {
      SIM_REQUIRE(r, !s.eager.membership(w), "membership-eager", "foreign vertex reported as member");
      SIM_REQUIRE(r, !s.lazy.membership(w), "membership-lazy", "foreign vertex reported as member");
    }
  }
  // the eager map stores exactly the maximal simplices
  auto ms = s.eager.maximal_simplices();
  std::vector<Mask> got; for (auto& sp : ms) { bool ok; Mask x = mask_of_simplex(s, *sp, ok); SIM_REQUIRE(r, ok && x, "maximal_simplices", "foreign or empty simplex stored"); got.push_back(x); }
  std::sort(got.begin(), got.end());
  SIM_REQUIRE(r, std::adjacent_find(got.begin(), got.end()) == got.end(), "maximal_simplices", "duplicate maximal simplex");
  const auto& exp = maxi;
  if (got != exp) {
    std::string d = "stored:"; for (Mask x : got) d += " " + s.me.str(x); d += " model:"; for (Mask x : exp) d += " " + s.me.str(x);
    r.fail("maximal_simplices", d);
  }
  SIM_REQUIRE(r, s.eager.num_maximal_simplices() == exp.size(), "num_maximal", "num_maximal_simplices=" + std::to_string(s.eager.num_maximal_simplices()) + " model=" + std::to_string(exp.size()));
  SIM_REQUIRE(r, s.eager.num_vertices() == s.me.num_vertices(), "num_vertices-eager", "num_vertices=" + std::to_string(s.eager.num_vertices()) + " model=" + std::to_string(s.me.num_vertices()));
  SIM_REQUIRE(r, s.lazy.num_vertices() == s.ml.num_vertices(), "num_vertices-lazy", "num_vertices=" + std::to_string(s.lazy.num_vertices()) + " model=" + std::to_string(s.ml.num_vertices()));
  // eager == lazy (through the models, up to the vertex kept by contractions)
  if (s.me.same_set(s.ml)) r.count("probe.eager_lazy_same_labels"); else r.count("probe.eager_lazy_renamed");
  r.log(s.me.hash(false)); r.log(s.ml.hash(false));
}

void execute(const sim::Plan& p, sim::Run& r) {
  Sys s;
  std::vector<long> labels; for (int x : sim::split_ints(p.get("labels"))) labels.push_back(x);
  s.me = Complex(labels); s.ml = Complex(labels);
  for (long l : s.me.labels) s.lab.push_back((std::size_t)l);
  if (p.geti("big_label")) s.lab.back() = (std::size_t)5000000000ull + s.lab.back();
  int n = s.me.n; int maxs = (int)p.geti("max_simplex", 4);
  for (size_t i = 0; i < p.ops.size(); ++i) {
    const sim::Op& op = p.ops[i];
    r.begin_op((int)i, op);
    if (op.name == "ins" || op.name == "ins_indep") {
      Mask m = (Mask)(op.arg(0) & s.me.full());
      while (model::popcount(m) > maxs) m &= m - 1;
      if (!m) { r.skipped(); continue; }
      if (op.name == "ins_indep") {
        // precondition: not in the complex, contains no current toplex (checked in both models: same op for both variants)
        bool ok = !s.me.has(m) && !s.ml.has(m);
        for (Mask x : s.me.maximal_simplices()) if (model::subset(x, m)) ok = false;
        for (Mask x : s.ml.maximal_simplices()) if (model::subset(x, m)) ok = false;
        if (!ok) { r.skipped(); continue; }
        s.eager.insert_independent_simplex(s.word(m)); s.lazy.insert_independent_simplex(s.word(m));
      } else {
        s.eager.insert_simplex(s.word(m)); s.lazy.insert_simplex(s.word(m));
      }
      s.me.insert_with_faces(m, 0); s.ml.insert_with_faces(m, 0); r.mutated = true;
    } else if (op.name == "rem" || op.name == "rem_mask") {
      Mask m;
      if (op.name == "rem") {
        // the k-th simplex of the eager model (maximal ones only unless nonmax); applied to the lazy map only if it has the same status there
        std::vector<Mask> c = op.arg(1) ? s.me.simplices() : s.me.maximal_simplices();
        if (c.empty()) { r.skipped(); continue; }
        m = c[op.arg(0) % c.size()];
      } else { m = (Mask)(op.arg(0) & s.me.full()); if (!m) { r.skipped(); continue; } }
      bool nonmax_e = s.me.has(m) && !s.me.maximal(m), nonmax_l = s.ml.has(m) && !s.ml.maximal(m);
      if (nonmax_e) r.count("probe.remove_nonmaximal");
      if (!s.me.has(m)) r.count("probe.remove_absent");
      bool fence_e = nonmax_e && r.kf("C16-KF1"), fence_l = nonmax_l && r.kf("C16-KF2");
      if (!fence_e) { s.eager.remove_simplex(s.word(m)); s.me.remove_star(m); }
      if (!fence_l) { s.lazy.remove_simplex(s.word(m)); s.ml.remove_star(m); }
      if (fence_e != fence_l) { /* models diverge: stop comparing this run */ r.skipped(); return; }
      if (fence_e) { r.skipped(); continue; }
      r.mutated = true;
    } else if (op.name == "remv") {
      std::vector<int> vs; for (int i2 = 0; i2 < n; ++i2) if (s.me.has(1u << i2)) vs.push_back(i2);
      if (vs.empty()) { r.skipped(); continue; }
      int v = vs[op.arg(0) % vs.size()];
      s.eager.remove_vertex(s.lab[v]); s.me.remove_star(1u << v);
      // the lazy variant has no remove_vertex: removing the 0-simplex is the same operation
      bool nonmax_l = s.ml.has(1u << v) && !s.ml.maximal(1u << v);
      if (nonmax_l && r.kf("C16-KF2")) { r.skipped(); return; }
      s.lazy.remove_simplex(s.word(1u << v)); s.ml.remove_star(1u << v);
      r.mutated = true;
    } else if (op.name == "contract") {
      long a = op.arg(0) % (n + 1), b = op.arg(1) % (n + 1);
      if (a == b) { r.skipped(); continue; }
      // index n stands for a vertex that was never in the complex
      std::size_t foreign = s.lab.back() + 17;
      std::size_t la = a == n ? foreign : s.lab[a], lb = b == n ? foreign : s.lab[b];
      auto do_one = [&](auto& map, Complex& mo, const char* which) {
        bool ina = a < n && mo.has(1u << a), inb = b < n && mo.has(1u << b);
        std::size_t kept = map.contraction(la, lb);
        r.log((uint64_t)kept);
        if (!ina || !inb) {
          // documented: "returns the remaining vertex"; with an absent vertex nothing is identified
          std::size_t expk = !ina ? lb : la;
          SIM_REQUIRE(r, kept == expk, std::string("contraction-ret-") + which, "contraction with an absent vertex returned " + std::to_string(kept) + " expected " + std::to_string(expk));
          r.count("probe.contract_absent");
          return;
        }
        SIM_REQUIRE(r, kept == la || kept == lb, std::string("contraction-ret-") + which, "contraction returned " + std::to_string(kept) + " which is neither argument");
        int keep = kept == la ? (int)a : (int)b, drop = kept == la ? (int)b : (int)a;
        mo.contract(keep, drop);
        r.mutated = true;
      };
      do_one(s.eager, s.me, "eager"); do_one(s.lazy, s.ml, "lazy");
    } else if (op.name == "audit") {
      audit(s, r, (uint64_t)op.arg(0));
    } else { r.skipped(); continue; }
    r.state(sim::mix(s.me.hash(false), s.ml.hash(false)));
  }
}

}  // namespace

sim::Engine sim::make_engine() {
  sim::Engine e; e.name = "toplex"; e.properties = {"C16"}; e.generate = generate; e.execute = execute;
  e.configurations = {"Toplex_map+Lazy_toplex_map"};
  (void)CLIENTS;
  return e;
}
