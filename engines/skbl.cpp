// Engine `skbl` (C17): Skeleton_blocker_complex driven through edit / contraction histories, checked after every operation
// against the abstract complex M1 (contains for every vertex set, enumerations, counts, blockers = minimal non-faces,
// homotopy invariants across contractions that satisfy the link condition).
#include "../sim/core.h"
#include "../models/complex.h"
#include "../models/linalg.h"
#include <gudhi/Skeleton_blocker.h>

using model::Mask; using model::Complex;
using namespace Gudhi::skeleton_blocker;
typedef Skeleton_blocker_complex<Skeleton_blocker_simple_traits> SB;
typedef SB::Vertex_handle Vh; typedef SB::Simplex Simplex;

namespace {

sim::Plan generate(const std::string&, uint64_t subseed, const sim::Tier& tier) {
  sim::Rng rng(subseed);
  sim::Plan p;
  int nv = (int)rng.range(3, tier.thorough() ? 8 : 7);
  p.seti("nv", nv);
  int nops = (int)rng.range(4, tier.thorough() ? 60 : 40);
  int audit_every = (int)rng.range(1, 4);
  // swarm: which op kinds are enabled in this run
  bool en_nb = rng.chance(3, 4), en_wb = rng.chance(3, 4), en_simplex = rng.chance(3, 4), en_rstar = rng.chance(4, 5), en_contract = rng.chance(3, 4), en_addv = rng.chance(1, 2);
  if (!en_nb && !en_wb) en_wb = true;
  int init = (int)rng.below(5);  // 0: start from nv isolated vertices; 1: constructor from a simplex list; 2: few vertices + add_vertex ops; 3: as 0; 4: boundaries of large simplices (blockers of dimension >= 4)
  if (init == 4 && nv < 5) { nv = (int)rng.range(5, tier.thorough() ? 8 : 7); p.seti("nv", nv); }
  p.seti("init", init);
  p.seti("init_seed", (long)rng.below(1 << 30));
  p.seti("init_density", rng.range(1, 9));
  for (int i = 0; i < nops; ++i) {
    int k = (int)rng.below(20);
    if (k < 7) { if (rng.chance(1, 2) ? en_nb : !en_wb) p.add(0, "adde", {(long)rng.below(64), (long)rng.below(64), 1}); else p.add(0, "adde", {(long)rng.below(64), (long)rng.below(64), 0}); }
    else if (k < 10) { if (en_simplex) p.add(0, "adds", {(long)rng.below(1 << nv)}); else p.add(0, "adde", {(long)rng.below(64), (long)rng.below(64), en_wb ? 0 : 1}); }
    else if (k < 14) { if (en_rstar) p.add(1, "rstar", {(long)rng.below(4096), (long)rng.below(init == 4 ? 5 : 4), (long)rng.below(3)}); }
    else if (k < 18) { if (en_contract) p.add(2, "contract", {(long)rng.below(4096), (long)rng.below(2), (long)rng.below(2)}); }
    else if (en_addv) p.add(0, "addv");
    if (rng.below(audit_every) == 0) p.add(3, "audit", {(long)rng.below(1 << 20)});
  }
  p.add(3, "audit", {0});
  return p;
}

struct Sys {
  SB* c = nullptr;
  Complex m;       // universe = all handles that may ever exist (nvmax)
  int handles = 0; // number of vertex handles created so far (contiguous)
  ~Sys() { delete c; }
};

Simplex to_simplex(Mask x) { Simplex s; for (int v = 0; v < 16; ++v) if (x >> v & 1) s.add_vertex(Vh(v)); return s; }
Mask to_mask(const Simplex& s) { Mask m = 0; for (auto v : s) m |= 1u << v.vertex; return m; }

std::vector<Mask> minimal_nonfaces(const Complex& k) {
  std::vector<Mask> r;
  for (Mask x = 1; x <= k.full(); ++x) if (model::popcount(x) >= 3 && !k.in[x]) {
    bool ok = true;
    for (int i = 0; i < k.n && ok; ++i) if (x >> i & 1) if (!k.in[x & ~(1u << i)]) ok = false;  // facets present (closure gives the rest)
    if (ok) r.push_back(x);
  }
  return r;
}
// complex determined by a vertex set, an edge set and blockers
void rebuild_from(Complex& k, const std::vector<Mask>& blockers) {
  // vertices and edges of k are kept; higher simplices recomputed
  for (Mask x = 1; x <= k.full(); ++x) if (model::popcount(x) >= 3) {
    bool ok = true;
    for (int i = 0; i < k.n && ok; ++i) if (x >> i & 1) for (int j = i + 1; j < k.n && ok; ++j) if (x >> j & 1) if (!k.in[(1u << i) | (1u << j)]) ok = false;
    for (Mask b : blockers) if (ok && model::subset(b, x)) ok = false;
    k.in[x] = ok;
  }
}

void audit(Sys& s, sim::Run& r, uint64_t order_seed) {
  r.audited = true;
  const Complex& k = s.m; SB& c = *s.c;
  SIM_REQUIRE(r, k.closed(), "model", "model complex is not closed under faces (harness bug)");
  std::vector<Mask> q; for (Mask x = 1; x < (1u << s.handles); ++x) q.push_back(x);
  sim::Rng rng(order_seed ? order_seed : 1); if (order_seed) rng.shuffle(q);
  for (Mask x : q) {
    bool verts = true; for (int v = 0; v < s.handles; ++v) if ((x >> v & 1) && !c.contains_vertex(Vh(v))) verts = false;
    bool in = verts && c.contains(to_simplex(x));
    SIM_REQUIRE(r, in == k.has(x), "contains", "contains(" + k.str(x) + ")=" + std::to_string(in) + " model=" + std::to_string(k.has(x)));
    r.log((uint64_t)in);
  }
  for (int v = 0; v < s.handles; ++v) SIM_REQUIRE(r, c.contains_vertex(Vh(v)) == k.has(1u << v), "contains", "contains_vertex(" + std::to_string(v) + ") wrong");
  // blockers = minimal non-faces of dimension >= 2 whose proper faces are all present
  std::vector<Mask> bl; for (auto bh : c.const_blocker_range()) bl.push_back(to_mask(*bh));
  std::sort(bl.begin(), bl.end());
  SIM_REQUIRE(r, std::adjacent_find(bl.begin(), bl.end()) == bl.end(), "blockers", "a blocker is listed twice");
  auto mnf = minimal_nonfaces(k);
  if (bl != mnf) {
    std::string d = "blockers:"; for (Mask x : bl) d += " " + k.str(x); d += " minimal non-faces:"; for (Mask x : mnf) d += " " + k.str(x);
    r.fail("blockers", d);
  }
  SIM_REQUIRE(r, c.num_blockers() == mnf.size(), "blockers", "num_blockers=" + std::to_string(c.num_blockers()) + " model=" + std::to_string(mnf.size()));
  for (Mask x : mnf) SIM_REQUIRE(r, c.contains_blocker(to_simplex(x)), "blockers", "contains_blocker(" + k.str(x) + ") false");
  // enumeration and counts
  std::vector<Mask> en; for (const auto& sx : c.complex_simplex_range()) en.push_back(to_mask(sx));
  std::sort(en.begin(), en.end());
  SIM_REQUIRE(r, std::adjacent_find(en.begin(), en.end()) == en.end(), "enum", "complex_simplex_range lists a simplex twice");
  SIM_REQUIRE(r, en == k.simplices(), "enum", "complex_simplex_range has " + std::to_string(en.size()) + " simplices, model " + std::to_string(k.size()));
  SIM_REQUIRE(r, c.num_simplices() == k.size(), "count", "num_simplices=" + std::to_string(c.num_simplices()) + " model=" + std::to_string(k.size()));
  auto byd = k.count_by_dim();
  for (int d = 0; d <= (int)byd.size(); ++d) {
    size_t e = d < (int)byd.size() ? byd[d] : 0;
    SIM_REQUIRE(r, c.num_simplices(d) == e, "count", "num_simplices(" + std::to_string(d) + ")=" + std::to_string(c.num_simplices(d)) + " model=" + std::to_string(e));
  }
  SIM_REQUIRE(r, (size_t)c.num_vertices() == k.num_vertices(), "count", "num_vertices=" + std::to_string(c.num_vertices()) + " model=" + std::to_string(k.num_vertices()));
  SIM_REQUIRE(r, (size_t)c.num_edges() == (byd.size() > 1 ? byd[1] : 0), "count", "num_edges=" + std::to_string(c.num_edges()));
  if (k.num_vertices() > 0) {
    auto b = model::betti(k, 2);
    SIM_REQUIRE(r, c.num_connected_components() == b[0], "components", "num_connected_components=" + std::to_string(c.num_connected_components()) + " model=" + std::to_string(b[0]));
  }
  // link condition <=> no blocker through the edge
  for (Mask e : k.simplices()) if (model::popcount(e) == 2) {
    int a = __builtin_ctz(e), b = 31 - __builtin_clz(e);
    bool lc = c.link_condition(Vh(a), Vh(b)); bool exp = true; for (Mask x : mnf) if (model::subset(e, x)) exp = false;
    SIM_REQUIRE(r, lc == exp, "link_condition", "link_condition" + k.str(e) + "=" + std::to_string(lc) + " model=" + std::to_string(exp));
  }
  r.log(k.hash(false));
}

void execute(const sim::Plan& p, sim::Run& r) {
  Sys s;
  int nv = (int)p.geti("nv", 5), init = (int)p.geti("init", 0);
  std::vector<long> labels; for (int i = 0; i < 8; ++i) labels.push_back(i);
  s.m = Complex(labels);
  if (init == 1) {
    // constructor from the list of all simplices of a random closed complex (is_flag_complex = false: blockers computed)
    sim::Rng g((uint64_t)p.geti("init_seed"));
    int dens = (int)p.geti("init_density", 5);
    for (int v = 0; v < nv; ++v) s.m.insert_one(1u << v, 0);
    int tops = (int)g.range(1, 2 + dens);
    for (int t = 0; t < tops; ++t) { Mask x = (Mask)g.below(1u << nv); while (model::popcount(x) > 4) x &= x - 1; if (x) s.m.insert_with_faces(x, 0); }
    std::vector<Simplex> list; for (Mask x : s.m.simplices()) list.push_back(to_simplex(x));
    g.shuffle(list);
    s.c = new SB(list.begin(), list.end(), false);
    s.handles = nv;
    r.count("probe.init_from_list");
  } else if (init == 4) {
    // boundaries of one or two large simplices: every proper face present, the simplex itself a blocker of dimension >= 4
    sim::Rng g((uint64_t)p.geti("init_seed"));
    for (int v = 0; v < nv; ++v) s.m.insert_one(1u << v, 0);
    int big = (int)g.range(1, 2);
    for (int t = 0; t < big; ++t) {
      Mask x = (1u << nv) - 1; int want = (int)g.range(5, nv);
      while (model::popcount(x) > want) { int v = (int)g.below(nv); x &= ~(1u << v); }
      for (int v = 0; v < nv; ++v) if (x >> v & 1) s.m.insert_with_faces(x & ~(1u << v), 0);
    }
    std::vector<Simplex> list; for (Mask x : s.m.simplices()) list.push_back(to_simplex(x));
    g.shuffle(list);
    s.c = new SB(list.begin(), list.end(), false);
    s.handles = nv;
    r.count("probe.init_boundary_of_large_simplex");
  } else {
    int start = init == 2 ? std::min(nv, 2) : nv;
    s.c = new SB(start);
    s.handles = start;
    for (int v = 0; v < start; ++v) s.m.insert_one(1u << v, 0);
  }
  for (size_t i = 0; i < p.ops.size(); ++i) {
    const sim::Op& op = p.ops[i];
    r.begin_op((int)i, op);
    Complex& k = s.m; SB& c = *s.c;
    std::vector<int> vs; for (int v = 0; v < s.handles; ++v) if (k.has(1u << v)) vs.push_back(v);
    if (op.name == "addv") {
      if (s.handles >= nv) { r.skipped(); continue; }
      Vh h = c.add_vertex();
      SIM_REQUIRE(r, h.vertex == s.handles, "ret", "add_vertex returned handle " + std::to_string(h.vertex) + " expected " + std::to_string(s.handles));
      k.insert_one(1u << s.handles, 0); ++s.handles; r.mutated = true;
    } else if (op.name == "adde") {
      if (vs.size() < 2) { r.skipped(); continue; }
      int a = vs[op.arg(0) % vs.size()], b = vs[op.arg(1) % vs.size()];
      if (a == b) { r.skipped(); continue; }
      Mask ab = (1u << a) | (1u << b);
      bool had = k.has(ab);
      if (op.arg(2) == 0) {
        c.add_edge(Vh(a), Vh(b));
        k.insert_one(ab, 0);  // only the edge appears: everything above it is blocked
        if (had) r.count("probe.add_edge_existing");
      } else {
        auto bl = minimal_nonfaces(k);
        c.add_edge_without_blockers(Vh(a), Vh(b));
        k.insert_one(ab, 0);
        if (!had) rebuild_from(k, bl);  // flag-like completion through ab; existing blockers remain
      }
      r.mutated = true;
    } else if (op.name == "adds") {
      Mask x = (Mask)op.arg(0); Mask pres = 0; for (int v : vs) pres |= 1u << v;
      x &= pres; while (model::popcount(x) > 5) x &= x - 1;
      if (model::popcount(x) < 3 || k.has(x)) { r.skipped(); continue; }
      if (!minimal_nonfaces(k).empty()) r.count("probe.add_simplex_with_blockers_present");
      c.add_simplex(to_simplex(x));
      k.insert_with_faces(x, 0); r.mutated = true;
    } else if (op.name == "rstar") {
      auto all = k.simplices();
      // bias: arg1 selects the dimension class (0: vertex, 1: edge, 2: any)
      std::vector<Mask> cand;
      for (Mask x : all) { int d = model::dim_of(x); if (op.arg(1) == 2 || (op.arg(1) == 0 && d == 0) || (op.arg(1) == 1 && d == 1) || (op.arg(1) >= 3 && d >= 2)) cand.push_back(x); }
      if (cand.empty()) cand = all;
      if (cand.empty()) { r.skipped(); continue; }
      Mask x = cand[op.arg(0) % cand.size()];
      int d = model::dim_of(x);
      if (d <= 1) {
        // known finding C17-KF1: star removal of a vertex/edge s turns sigma\s into a blocker for every blocker sigma containing s when sigma\\s has dimension >= 2
        bool pattern = false; for (Mask b : minimal_nonfaces(k)) if (model::subset(x, b) && model::dim_of(b) - d - 1 >= 2) pattern = true;
        if (pattern) { r.count("probe.remove_star_below_blocker"); if (r.kf("C17-KF1")) { r.skipped(); continue; } }
      }
      if (d >= 2) { for (Mask b : minimal_nonfaces(k)) if (model::subset(x, b) && model::dim_of(b) - d - 1 >= 2) { r.count("probe.remove_star_of_simplex_inside_large_blocker"); break; } }
      int how = (int)op.arg(2);
      if (d == 0 && how != 2) c.remove_star(Vh(__builtin_ctz(x)));
      else if (d == 1 && how == 0) c.remove_star(Vh(__builtin_ctz(x)), Vh(31 - __builtin_clz(x)));
      else if (d == 1 && how == 1) { auto e = c[std::make_pair(Vh(__builtin_ctz(x)), Vh(31 - __builtin_clz(x)))]; SIM_REQUIRE(r, (bool)e, "ret", "edge handle of a present edge is empty"); c.remove_star(*e); }
      else c.remove_star(to_simplex(x));
      k.remove_star(x); r.mutated = true;
      r.count("probe.remove_star_dim" + std::to_string(std::min(d, 3)));
    } else if (op.name == "contract") {
      std::vector<Mask> edges; for (Mask x : k.simplices()) if (model::popcount(x) == 2) edges.push_back(x);
      if (edges.empty()) { r.skipped(); continue; }
      Mask e = edges[op.arg(0) % edges.size()];
      int a = __builtin_ctz(e), b = 31 - __builtin_clz(e); if (op.arg(1)) std::swap(a, b);
      auto bl = minimal_nonfaces(k);
      bool lc = true; for (Mask x : bl) if (model::subset(e, x)) lc = false;
      bool got_lc = c.link_condition(Vh(a), Vh(b));
      SIM_REQUIRE(r, got_lc == lc, "link_condition", "link_condition" + k.str(e) + "=" + std::to_string(got_lc) + " model=" + std::to_string(lc));
      auto betti_before = model::betti(k, 2); long chi_before = model::euler(k);
      if (!lc) {
        // documented: blockers through ab are removed first
        std::vector<Mask> keep; for (Mask x : bl) if (!model::subset(e, x)) keep.push_back(x);
        rebuild_from(k, keep);
        r.count("probe.contract_without_link_condition");
      } else r.count("probe.contract_with_link_condition");
      if (op.arg(2)) { auto eh = c[std::make_pair(Vh(a), Vh(b))]; SIM_REQUIRE(r, (bool)eh, "ret", "edge handle of a present edge is empty"); Vh fa = c.first_vertex(*eh), fb = c.second_vertex(*eh); c.contract_edge(*eh); a = fa.vertex; b = fb.vertex; }
      else c.contract_edge(Vh(a), Vh(b));
      k.contract(a, b);
      if (lc) {
        // homotopy type preserved: Betti numbers (Z_2) and Euler characteristic of the result
        auto betti_after = model::betti(k, 2);
        while (!betti_before.empty() && betti_before.back() == 0) betti_before.pop_back();
        while (!betti_after.empty() && betti_after.back() == 0) betti_after.pop_back();
        SIM_REQUIRE(r, betti_after == betti_before && model::euler(k) == chi_before, "model", "model: contraction under the link condition changed the homotopy invariants (harness bug)");
      }
      r.mutated = true;
    } else if (op.name == "audit") {
      audit(s, r, (uint64_t)op.arg(0));
      // homotopy invariants observable through the implementation itself: Euler characteristic from its own enumeration
      long chi = 0; for (const auto& sx : c.complex_simplex_range()) chi += (sx.dimension() % 2 == 0) ? 1 : -1;
      SIM_REQUIRE(r, chi == model::euler(k), "euler", "Euler characteristic from complex_simplex_range " + std::to_string(chi) + " model " + std::to_string(model::euler(k)));
    } else { r.skipped(); continue; }
    r.state(k.hash(false));
  }
}

}  // namespace

sim::Engine sim::make_engine() {
  sim::Engine e; e.name = "skbl"; e.properties = {"C17"}; e.generate = generate; e.execute = execute;
  e.configurations = {"Skeleton_blocker_complex<Skeleton_blocker_simple_traits>"};
  return e;
}
