// Engine `pm_base` (C09): plan generator and dispatcher. A plan names an option family; it is executed on every column type of
// that family in lock-step and the observation digests must agree (representation independence), each against the dense model.
#include "pm_base_impl.h"

namespace pmb { std::vector<Config>& configs() { static std::vector<Config> c; return c; } }

namespace {
using sim::Rng;

std::vector<std::string> families() { std::vector<std::string> f; for (auto& c : pmb::configs()) if (std::find(f.begin(), f.end(), c.family) == f.end()) f.push_back(c.family); std::sort(f.begin(), f.end()); return f; }

sim::Plan generate(const std::string&, uint64_t subseed, const sim::Tier& tier) {
  Rng rng(subseed);
  sim::Plan p;
  auto fam = families();
  p.set("family", fam[rng.below((long)fam.size())]);
  static const long primes[] = {3, 5, 7, 11, 13, 251};  // the operators build a table of inverses by trial multiplication: large primes only cost time
  p.seti("p", tier.thorough() ? primes[rng.below(6)] : (rng.chance(2, 3) ? 5 : primes[rng.below(6)]));
  p.seti("nr", rng.range(2, 7));
  const bool compressed = p.get("family").find("compressed") != std::string::npos;
  // compressed variant: tiny row space and many columns, so that classes of identical columns form, grow, merge and split all the time
  if (compressed && rng.chance(3, 4)) { p.seti("nr", rng.range(1, 3)); p.seti("p", rng.chance(1, 2) ? 3 : p.geti("p")); }
  int nops = (int)rng.range(4, tier.thorough() ? 70 : 45);
  if (compressed) nops += (int)rng.range(10, 40);
  // swarm: op mix, audit frequency (reads trigger the lazy paths: some runs read after every op, others almost never)
  int audit_every = rng.chance(1, 4) ? 1 : (int)rng.range(2, 12);
  int w_ins = (int)rng.range(2, 6), w_add = (int)rng.range(2, 8), w_zero = rng.chance(3, 4) ? (int)rng.range(1, 4) : 0, w_swap = rng.chance(3, 4) ? (int)rng.range(1, 4) : 0, w_rm = rng.chance(2, 3) ? (int)rng.range(1, 3) : 0;
  long P = p.geti("p");
  auto coefficient = [&]() -> long { long z = rng.below(8); return z == 0 ? 0 : z == 1 ? 1 : z == 2 ? P - 1 : z == 3 ? P : z == 4 ? -(long)rng.range(1, 2 * P) : z == 5 ? P + rng.range(1, 3 * P) : rng.range(0, P - 1); };
  for (int i = 0; i < 3; ++i) p.add(0, "ins", {(long)rng.below(1 << 30)});
  for (int i = 0; i < nops; ++i) {
    long k = rng.below(w_ins + w_add + w_zero + w_swap + w_rm);
    if (k < w_ins) { if (rng.chance(1, 4)) p.add(0, "ins_dup", {(long)rng.below(64)}); else if (rng.chance(1, 5)) p.add(0, "ins_at", {(long)rng.below(1 << 30), (long)rng.below(64)}); else p.add(0, "ins", {(long)rng.below(1 << 30)}); }
    else if (k < w_ins + w_add) { long z = rng.below(3); p.add(1, z == 0 ? "add" : z == 1 ? "mta" : "msa", {(long)rng.below(64), (long)rng.below(64), coefficient(), (long)rng.below(1 << 30), (long)rng.below(64)}); }
    else if (k < w_ins + w_add + w_zero) { if (rng.chance(3, 4)) p.add(1, "zero_entry", {(long)rng.below(64), (long)rng.below(64), (long)rng.below(2)}); else p.add(1, "zero_col", {(long)rng.below(64)}); }
    else if (k < w_ins + w_add + w_zero + w_swap) { if (rng.chance(1, 2)) p.add(2, "swap_rows", {(long)rng.below(64), (long)rng.below(64)}); else p.add(2, "swap_cols", {(long)rng.below(64), (long)rng.below(64)}); }
    else { long z = rng.below(3); if (z == 0) p.add(2, "rm_last"); else if (z == 1) p.add(2, "rm_col", {(long)rng.below(64)}); else p.add(2, "erase_row", {(long)rng.below(64)}); }
    if (rng.below(audit_every) == 0) p.add(3, "audit", {(long)rng.below(1 << 30)});
  }
  p.add(3, "audit", {(long)rng.below(1 << 30)});
  return p;
}

void execute(const sim::Plan& p, sim::Run& r) {
  std::string fam = p.get("family"), only = p.get("only_config");
  std::vector<std::pair<std::string, pmb::Obs>> all;
  for (auto& c : pmb::configs()) {
    if (c.family != fam) continue;
    if (!only.empty() && only != c.name) continue;
    pmb::Obs o; r.log(c.name);
    try { c.exec(p, r, o); } catch (const sim::Failure&) { throw; } catch (const std::exception& ex) { r.fail("exception", std::string("[") + c.name + "] unexpected exception: " + ex.what()); }
    all.emplace_back(c.name, o);
  }
  if (all.empty()) r.fail("harness", "no configuration of family " + fam + " compiled in");
  size_t ref = 0; while (ref < all.size() && all[ref].second.tainted) ++ref;
  for (size_t i = ref + 1; i < all.size(); ++i)
    if (!all[i].second.tainted && all[i].second.digests != all[ref].second.digests) r.fail("dense", "column types " + all[ref].first + " and " + all[i].first + " disagree on the observable contents");
}
}  // namespace

sim::Engine sim::make_engine() {
  sim::Engine e; e.name = "pm_base"; e.properties = {"C09"}; e.generate = generate; e.execute = execute;
  for (auto& c : pmb::configs()) e.configurations.push_back(c.name);
  return e;
}
