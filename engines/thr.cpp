// Engine `thr` (C15, thread clause): independent objects used from different threads.
//
// Each simulated client is a REAL thread that owns its objects (a simplex tree, a matrix, a zigzag computation, a toplex map, a
// skeleton-blocker complex) and drives them through its part of the plan. Which thread runs is decided by the plan alone: the
// threads are parked and released one at a time by a baton that follows the global order of the ops of the plan, so one seed is
// one exactly repeatable execution. The baton is invisible to ThreadSanitizer (plain volatile accesses and a raw futex in functions
// that are not instrumented): no happens-before edge exists between two clients, so ANY memory that two clients touch without
// a synchronisation of the library's own is reported as a data race although the accesses are serialised - deterministic race
// detection instead of hoping for a lucky overlap. Two oracles:
//   race          ThreadSanitizer report (process dies, class thr/race/threads)
//   interference  every observable result of every client equals the result of the same client running alone (solo pass in the
//                 main thread before the threads start): state that leaks between "independent" objects through a properly locked
//                 shared cache is not a data race, but it is visible here
// Built with clang -fsanitize=thread, sequential sort path (no TBB: the sort shim of the other engines has global state of its own).
#include "../sim/core.h"
#include "../models/filtration.h"
#include "../models/zigzag.h"
#include <gudhi/Simplex_tree.h>
#include <gudhi/Persistent_cohomology.h>
#include <gudhi/Matrix.h>
#include <gudhi/persistence_matrix_options.h>
#include <gudhi/filtered_zigzag_persistence.h>
#include <gudhi/Toplex_map.h>
#include <gudhi/Lazy_toplex_map.h>
#include <gudhi/Skeleton_blocker.h>
#include <pthread.h>
#include <sched.h>
#include <unistd.h>
#include <sys/syscall.h>
#include <linux/futex.h>
#include <time.h>
#include <memory>
#include <new>
#include <sstream>
#include <iomanip>
#include <cmath>

using sim::mix;

// ------------------------------------------------------------------------------------------------ the baton
#define NO_TSAN __attribute__((no_sanitize("thread"), noinline))
static volatile int g_pos = 0;  // index (in the plan) of the op that may run now
NO_TSAN static int baton_get() { int v = g_pos; asm volatile("" ::: "memory"); return v; }
NO_TSAN static void baton_set(int v) {
  asm volatile("" ::: "memory"); g_pos = v; asm volatile("mfence" ::: "memory");
  syscall(SYS_futex, (int*)&g_pos, FUTEX_WAKE_PRIVATE, 1 << 20, nullptr, nullptr, 0);
}
NO_TSAN static void baton_wait(int idx) {
  for (int spin = 0;; ++spin) {
    int v = g_pos; asm volatile("" ::: "memory");
    if (v == idx) return;
    if (spin < 64) { sched_yield(); continue; }
    struct timespec ts = {0, 2000000};  // a lost wake-up costs 2 ms, never a hang
    syscall(SYS_futex, (int*)&g_pos, FUTEX_WAIT_PRIVATE, v, &ts, nullptr, 0);
  }
}

// ------------------------------------------------------------------------------------------------ allocation faults, per thread
// The k-th allocation of the calling thread fails (0 = never): a fault inside one client while the others keep running.
static thread_local long tl_alloc_countdown = 0;
static thread_local long tl_alloc_count = 0;
static thread_local long tl_faults_fired = 0;
// ThreadSanitizer's runtime defines the global operator new itself, so it cannot be replaced: the calls made from this
// translation unit (all the GUDHI code is compiled here) are redirected by the linker (-Wl,--wrap=_Znwm,--wrap=_Znam).
extern "C" void* __real__Znwm(std::size_t);
extern "C" void* __real__Znam(std::size_t);
extern "C" void* __wrap__Znwm(std::size_t n) {
  ++tl_alloc_count;
  if (tl_alloc_countdown > 0 && --tl_alloc_countdown == 0) throw std::bad_alloc();
  return __real__Znwm(n);
}
extern "C" void* __wrap__Znam(std::size_t n) {
  ++tl_alloc_count;
  if (tl_alloc_countdown > 0 && --tl_alloc_countdown == 0) throw std::bad_alloc();
  return __real__Znam(n);
}

// ------------------------------------------------------------------------------------------------ actors
struct Actor { virtual ~Actor() {} virtual uint64_t step(const sim::Op& op) = 0; };

static uint64_t dbits(double d) { uint64_t b; memcpy(&b, &d, 8); return b; }
static std::vector<int> verts_of(long m, int nv) { std::vector<int> v; m = m % ((1l << nv) - 1) + 1; for (int i = 0; i < nv; ++i) if (m >> i & 1) v.push_back(i); return v; }

// read-only tables, built by the main thread before any client thread exists
static const model::Pool& pool5() { static const model::Pool p(5, 3); return p; }

template <class Opt>
struct StActor : Actor {
  typedef Gudhi::Simplex_tree<Opt> ST; typedef typename ST::Simplex_handle SH; typedef typename ST::Filtration_value FV;
  ST st;
  static uint64_t mask_of(ST& t, SH sh) { uint64_t m = 0; for (auto v : t.simplex_vertex_range(sh)) m |= 1ull << v; return m; }
  static uint64_t digest(ST& t) {
    uint64_t acc = 0;
    for (auto sh : t.complex_simplex_range()) acc += mix(mask_of(t, sh), dbits((double)t.filtration(sh)));
    return mix(acc, mix((uint64_t)t.num_simplices(), (uint64_t)(t.dimension() + 1)));
  }
  uint64_t step(const sim::Op& op) override {
    long k = op.arg(0) % 13, a = op.arg(1), b = op.arg(2), c = op.arg(3);
    uint64_t res = 0;
    FV f = (FV)(0.5 * (double)(b % 8));
    if (k <= 1) { auto r = st.insert_simplex_and_subfaces(verts_of(a, 6), f); res = r.second; }
    else if (k == 2) { auto r = st.insert_simplex({(int)(a % 6)}, f); res = r.second; }
    else if (k == 3) {  // 1-skeleton, then expansion (create_expansion and its scratch vector)
      ST g; int e = 0;
      for (int u = 0; u < 6; ++u) for (int v = u + 1; v < 6; ++v, ++e) if (a >> e & 1) g.insert_simplex_and_subfaces({u, v}, (FV)(0.25 * (double)((a >> (e % 7)) % 5)));
      g.expansion(1 + (int)(b % 3));
      res = digest(g);
      if (c % 2) st = std::move(g);
    } else if (k == 4) {  // edge by edge flag complex
      if constexpr (Opt::link_nodes_by_label) {
        ST g; std::vector<SH> added; int e = 0;
        for (int v = 0; v < 6; ++v) g.insert_edge_as_flag(v, v, (FV)0, 3, added);
        for (int u = 0; u < 6; ++u) for (int v = u + 1; v < 6; ++v, ++e) if (a >> e & 1) g.insert_edge_as_flag((b >> e & 1) ? v : u, (b >> e & 1) ? u : v, (FV)(0.25 * (double)e), 1 + (int)(c % 3), added);
        res = mix(digest(g), (uint64_t)added.size());
      }
    } else if (k == 5) {
      std::vector<SH> mx; for (auto sh : st.complex_simplex_range()) { bool cof = false; for (auto x : st.cofaces_simplex_range(sh, 1)) { (void)x; cof = true; break; } if (!cof) mx.push_back(sh); }
      if (!mx.empty()) { st.remove_maximal_simplex(mx[a % mx.size()]); res = 1; }
    } else if (k == 6) { res = st.prune_above_filtration(f); }
    else if (k == 7) {
      if (c % 4 == 1) {
        // F3 in a thread: the (a mod count)-th allocation of a copy of this client's tree fails while the other clients go on
        tl_alloc_count = 0; { ST probe(st); } long total = tl_alloc_count;
        if (total > 0) {
          bool thrown = false; tl_alloc_countdown = 1 + a % total;
          try { ST cp(st); res = digest(cp); } catch (const std::bad_alloc&) { thrown = true; ++tl_faults_fired; }
          tl_alloc_countdown = 0;
          res = mix(res, mix((uint64_t)thrown, (uint64_t)total));
        }
      } else { ST cp(st); res = mix(digest(cp), (uint64_t)(cp == st)); if (c % 3 == 0) { ST mv(std::move(cp)); res = mix(res, digest(mv)); } }
    }
    else if (k == 8) {
      size_t sz = st.get_serialization_size(); std::unique_ptr<char[]> buf(new char[sz ? sz : 1]); st.serialize(buf.get(), sz);
      ST back; back.deserialize(buf.get(), sz); res = mix(digest(back), (uint64_t)sz);
    } else if (k == 9) {
      st.clear_filtration();
      typedef Gudhi::persistent_cohomology::Persistent_cohomology<ST, Gudhi::persistent_cohomology::Field_Zp> PC;
      PC pc(st, true); pc.init_coefficients(a % 2 ? 2 : 3); pc.compute_persistent_cohomology(0);
      uint64_t acc = 0;
      for (auto& pr : pc.get_persistent_pairs()) {
        SH bs = std::get<0>(pr), ds = std::get<1>(pr);
        acc += mix(mix((uint64_t)st.dimension(bs), dbits((double)st.filtration(bs))), ds == st.null_simplex() ? 77 : dbits((double)st.filtration(ds)));
      }
      res = acc;
    } else if (k == 10) { res = st.make_filtration_non_decreasing(); }
    else if (k == 11) {
      st.clear_filtration();
      std::ostringstream os; os << std::setprecision(17) << st; std::istringstream is(os.str()); ST back; is >> back; res = mix(digest(back), sim::hash_str(os.str()));
    } else {
      st.clear_filtration();
      sim::Hasher h; for (auto sh : st.filtration_simplex_range()) h.add(mask_of(st, sh)); res = h.h;
    }
    return mix(res, digest(st));
  }
};

namespace pm = Gudhi::persistence_matrix;
struct RuVineOpt : pm::Default_options<pm::Column_types::INTRUSIVE_SET, true> { static const bool has_column_pairings = true; static const bool has_vine_update = true; };
struct ChainZpOpt : pm::Default_options<pm::Column_types::INTRUSIVE_LIST, false> { static const bool has_column_pairings = true; static const bool is_of_boundary_type = false; static const bool has_row_access = true; };
struct BaseZpOpt : pm::Default_options<pm::Column_types::SET, false> { static const bool has_row_access = true; static const bool has_intrusive_rows = false; };
struct BaseComprOpt : pm::Default_options<pm::Column_types::LIST, true> { static const bool has_column_compression = true; static const bool has_row_access = true; };

// persistence matrices fed with a filtration of the simplices on 5 vertices; MODE 0 = RU with vine swaps over Z2, 1 = chain over Z5
template <class Opt, int MODE>
struct FiltActor : Actor {
  typedef pm::Matrix<Opt> M; std::unique_ptr<M> m; std::vector<int> order;  // pool cells by position
  FiltActor() { if constexpr (Opt::is_z2) m.reset(new M()); else m.reset(new M(0, 5)); }
  int pos_of(int cell) const { for (size_t i = 0; i < order.size(); ++i) if (order[i] == cell) return (int)i; return -1; }
  uint64_t bars() { uint64_t acc = 0; for (const auto& b : m->get_current_barcode()) acc += mix(mix((uint64_t)b.dim, (uint64_t)b.birth), (uint64_t)(unsigned)b.death); return acc; }
  uint64_t step(const sim::Op& op) override {
    const model::Pool& P = pool5(); long k = op.arg(0) % 4, a = op.arg(1);
    uint64_t res = 0;
    if (k <= 1 || MODE == 1) {
      std::vector<int> cand; for (size_t c = 0; c < P.cells.size(); ++c) if (pos_of((int)c) < 0) { bool ok = true; for (auto& fc : P.cells[c].bd) if (pos_of(fc.first) < 0) ok = false; if (ok) cand.push_back((int)c); }
      if (!cand.empty() && order.size() < 24) {
        int c = cand[a % cand.size()];
        std::vector<std::pair<unsigned, unsigned>> bd; for (auto& fc : P.cells[c].bd) bd.push_back({(unsigned)pos_of(fc.first), fc.second > 0 ? 1u : 4u});
        std::sort(bd.begin(), bd.end());
        if constexpr (Opt::is_z2) { std::vector<unsigned> b; for (auto& x : bd) b.push_back(x.first); m->insert_boundary(b, P.cells[c].dim); }
        else m->insert_boundary(bd, P.cells[c].dim);
        order.push_back(c); res = 1;
      }
    } else if constexpr (MODE == 0) {
      if (order.size() >= 2) {
        int i = (int)(a % (long)(order.size() - 1)); bool face = false;
        for (auto& fc : P.cells[order[i + 1]].bd) if (fc.first == order[i]) face = true;
        if (!face) { res = 2 + (uint64_t)m->vine_swap((unsigned)i); std::swap(order[i], order[i + 1]); }
      }
    }
    return mix(res, bars());
  }
};

// base matrices: columns over Z5 (row access) or Z2 with column compression
template <class Opt>
struct BaseActor : Actor {
  typedef pm::Matrix<Opt> M; std::unique_ptr<M> m; unsigned n = 0;
  BaseActor() { if constexpr (Opt::is_z2) m.reset(new M()); else m.reset(new M(0, 5)); }
  uint64_t content() {
    uint64_t acc = 0;
    for (unsigned j = 0; j < n; ++j) { uint64_t h = j; for (const auto& e : m->get_column(j)) { unsigned v = 1; if constexpr (!Opt::is_z2) v = e.get_element(); h = mix(h, mix(e.get_row_index(), v)); } acc += h; }
    return acc;
  }
  uint64_t step(const sim::Op& op) override {
    long k = op.arg(0) % 3, a = op.arg(1), b = op.arg(2);
    if (k == 0 || n < 2) {
      if (n < 20) {
        std::vector<std::pair<unsigned, unsigned>> col; for (int r = 0; r < 8; ++r) if (a >> r & 1) col.push_back({(unsigned)r, 1 + (unsigned)((b >> (2 * r)) % 4)});
        if constexpr (Opt::is_z2) { std::vector<unsigned> c; for (auto& x : col) c.push_back(x.first); m->insert_column(c); } else m->insert_column(col);
        ++n;
      }
    } else {
      unsigned s = (unsigned)(a % n), t = (unsigned)(b % n);
      if (s != t) {
        if constexpr (Opt::is_z2) m->add_to(s, t); else if (k == 1) m->add_to(s, t); else m->multiply_source_and_add_to(2u + (unsigned)(a % 3), s, t);
      }
    }
    return content();
  }
};

struct ZzActor : Actor {
  typedef Gudhi::zigzag_persistence::Filtered_zigzag_persistence_with_storage<> FZ; FZ fz; zzmodel::u64 K = 0; double cur = 0; int arrows = 0;
  uint64_t step(const sim::Op& op) override {
    auto& P = zzmodel::zpool(); long k = op.arg(0) % 3, a = op.arg(1), b = op.arg(2);
    if (arrows < 26) {
      if (k <= 1) {
        std::vector<int> c; for (size_t i = 0; i < P.vmask.size(); ++i) if (!(K >> i & 1) && (P.bd[i] & ~K) == 0 && P.dim[i] <= 3) c.push_back((int)i);
        if (!c.empty()) { int cell = c[a % c.size()]; cur += 0.25 * (double)(b % 3); std::vector<int> bd; for (size_t j = 0; j < P.vmask.size(); ++j) if (P.bd[cell] >> j & 1) bd.push_back((int)j); fz.insert_cell(cell, bd, P.dim[cell], cur); K |= 1ull << cell; ++arrows; }
      } else {
        std::vector<int> c; for (size_t i = 0; i < P.vmask.size(); ++i) if (K >> i & 1) { bool cof = false; for (size_t j = 0; j < P.vmask.size(); ++j) if ((K >> j & 1) && j != i && (P.vmask[j] & P.vmask[i]) == P.vmask[i]) cof = true; if (!cof) c.push_back((int)i); }
        if (!c.empty()) { int cell = c[a % c.size()]; cur += 0.25 * (double)(b % 3); fz.remove_cell(cell, cur); K &= ~(1ull << cell); ++arrows; }
      }
    }
    uint64_t acc = 0; for (auto& bar : fz.get_persistence_diagram(0., true)) acc += mix(mix((uint64_t)bar.dim, dbits((double)bar.birth)), dbits((double)bar.death));
    return mix(acc, K);
  }
};

struct ToplexActor : Actor {
  Gudhi::Toplex_map tm; Gudhi::Lazy_toplex_map lz;
  static uint64_t h(const Gudhi::Toplex_map::Simplex& s) { uint64_t m = 0; for (auto v : s) m |= 1ull << (v & 63); return m; }
  uint64_t step(const sim::Op& op) override {
    long k = op.arg(0) % 5, a = op.arg(1), b = op.arg(2);
    auto vs = verts_of(a, 7); std::vector<Gudhi::Toplex_map::Vertex> w(vs.begin(), vs.end());
    uint64_t res = 0;
    if (k <= 1) { tm.insert_simplex(w); lz.insert_simplex(w); }
    else if (k == 2) { tm.remove_simplex(w); }
    else if (k == 3) { res = mix(tm.membership(w), mix(tm.maximality(w), lz.membership(w))); }
    else { int x = (int)(a % 7), y = (int)(b % 7); if (x != y) { std::vector<Gudhi::Toplex_map::Vertex> e{(Gudhi::Toplex_map::Vertex)x, (Gudhi::Toplex_map::Vertex)y}; if (tm.membership(e)) res = tm.contraction(x, y); } }
    uint64_t acc = 0; for (auto& sp : tm.maximal_cofaces(Gudhi::Toplex_map::Simplex())) acc += mix(h(*sp), 3);
    return mix(mix(res, acc), (uint64_t)lz.num_maximal_simplices());
  }
};

struct SkblActor : Actor {
  typedef Gudhi::skeleton_blocker::Skeleton_blocker_complex<Gudhi::skeleton_blocker::Skeleton_blocker_simple_traits> C; typedef C::Vertex_handle Vh; typedef C::Simplex Simplex;
  C c; int nv = 0;
  uint64_t step(const sim::Op& op) override {
    long k = op.arg(0) % 5, a = op.arg(1), b = op.arg(2);
    if (k == 0 || nv < 3) { if (nv < 8) { c.add_vertex(); ++nv; } }
    else {
      int x = (int)(a % nv), y = (int)(b % nv);
      bool okv = c.contains_vertex(Vh(x)) && c.contains_vertex(Vh(y));
      if (k == 1 || k == 2) { if (x != y && okv) c.add_edge_without_blockers(Vh(x), Vh(y)); }
      else if (k == 3) { Simplex s; for (int v = 0; v < nv; ++v) if ((a >> v & 1) && c.contains_vertex(Vh(v))) s.add_vertex(Vh(v)); if (s.dimension() >= 0) c.add_simplex(s); }
      else if (x != y && okv && c.contains_edge(Vh(x), Vh(y))) c.contract_edge(Vh(x), Vh(y));
    }
    uint64_t acc = 0;
    for (int u = 0; u < nv; ++u) for (int v = u + 1; v < nv; ++v) if (c.contains_vertex(Vh(u)) && c.contains_vertex(Vh(v)) && c.contains_edge(Vh(u), Vh(v))) acc += mix((uint64_t)u, (uint64_t)v);
    return mix(mix(acc, (uint64_t)c.num_vertices()), mix((uint64_t)c.num_edges(), (uint64_t)c.num_blockers()));
  }
};

struct StFloatStableOpt : Gudhi::Simplex_tree_options_default { typedef float Filtration_value; static const bool stable_simplex_handles = true; };
static const char* KINDS[] = {"st_default", "st_full", "st_fast", "ru_vine_z2", "chain_z5", "base_z5_rows", "base_z2_compressed", "zigzag_filtered", "toplex", "skbl"};
static const int NKINDS = 10;
static Actor* make_actor(const std::string& kind) {
  if (kind == "st_default") return new StActor<Gudhi::Simplex_tree_options_default>();
  if (kind == "st_full") return new StActor<Gudhi::Simplex_tree_options_full_featured>();
  if (kind == "st_fast") return new StActor<StFloatStableOpt>();
  if (kind == "ru_vine_z2") return new FiltActor<RuVineOpt, 0>();
  if (kind == "chain_z5") return new FiltActor<ChainZpOpt, 1>();
  if (kind == "base_z5_rows") return new BaseActor<BaseZpOpt>();
  if (kind == "base_z2_compressed") return new BaseActor<BaseComprOpt>();
  if (kind == "zigzag_filtered") return new ZzActor();
  if (kind == "toplex") return new ToplexActor();
  return new SkblActor();
}

// ------------------------------------------------------------------------------------------------ one client = one thread
struct Slot {
  std::string kind; std::vector<int> mine;  // indices of this client's ops in the plan
  std::vector<uint64_t> out; std::string err; int err_at = -1; long faults = 0;
};
struct Job { const sim::Plan* plan; Slot* slot; bool threaded; };

static void run_client(const sim::Plan& p, Slot& s, bool threaded) {
  std::unique_ptr<Actor> actor; bool dead = false; tl_faults_fired = 0;
  for (size_t k = 0; k < s.mine.size(); ++k) {
    int idx = s.mine[k];
    if (threaded) baton_wait(idx);
    uint64_t h = 0;
    if (!dead) {
      try {
        if (!actor) actor.reset(make_actor(s.kind));  // constructed by the thread that owns it
        h = actor->step(p.ops[idx]);
      } catch (const std::exception& e) { dead = true; s.err = e.what(); s.err_at = idx; h = sim::hash_str(s.err); }
    }
    s.out[k] = h;
    if (k + 1 == s.mine.size()) actor.reset();  // destroyed by its owner while the other clients are still alive
    if (k + 1 == s.mine.size()) s.faults = tl_faults_fired;
    if (threaded) baton_set(idx + 1);
  }
}
static void* thread_main(void* arg) { Job* j = (Job*)arg; run_client(*j->plan, *j->slot, j->threaded); return nullptr; }

// ------------------------------------------------------------------------------------------------ engine
static sim::Plan generate(const std::string& property, uint64_t subseed, const sim::Tier& tier) {
  sim::Rng rng(subseed); sim::Plan p; p.property = property; p.engine = "thr";
  int nc = (int)rng.range(2, 4); p.seti("clients", nc);
  // swarm: some runs put the same kind on every thread (the sharing most likely to collide), others mix kinds
  bool same = rng.chance(1, 2); int k0 = (int)rng.below(NKINDS);
  for (int c = 0; c < nc; ++c) p.set("kind" + std::to_string(c), KINDS[same ? k0 : rng.below(NKINDS)]);
  int nops = (int)rng.range(6, tier.thorough() ? 60 : 36);
  // schedules: fine interleaving, bursts, or one client finishing before another starts
  int style = (int)rng.below(3); int cur = 0;
  for (int i = 0; i < nops; ++i) {
    if (style == 0) cur = (int)rng.below(nc); else if (style == 1) { if (rng.chance(1, 4)) cur = (int)rng.below(nc); } else cur = std::min(nc - 1, i * nc / nops);
    p.add(cur, "act", {(long)rng.below(1 << 20), (long)rng.below(1 << 20), (long)rng.below(1 << 20), (long)rng.below(1 << 20)});
  }
  return p;
}

static void execute(const sim::Plan& p, sim::Run& r) {
  pool5(); zzmodel::build_pool();  // read-only tables are built before any client thread exists
  int nc = (int)std::max(1l, std::min(8l, p.geti("clients", 2)));
  std::vector<Slot> solo(nc), thr(nc);
  for (int c = 0; c < nc; ++c) { solo[c].kind = thr[c].kind = p.get("kind" + std::to_string(c), "st_default"); }
  for (size_t i = 0; i < p.ops.size(); ++i) { int c = ((p.ops[i].client % nc) + nc) % nc; solo[c].mine.push_back((int)i); thr[c].mine.push_back((int)i); }
  for (int c = 0; c < nc; ++c) { solo[c].out.assign(solo[c].mine.size(), 0); thr[c].out.assign(thr[c].mine.size(), 0); }
  r.opkind = "solo";
  for (int c = 0; c < nc; ++c) run_client(p, solo[c], false);
  r.opkind = "threads";
  baton_set(0);
  std::vector<pthread_t> th(nc); std::vector<Job> jobs(nc);
  for (int c = 0; c < nc; ++c) { jobs[c] = Job{&p, &thr[c], true}; if (pthread_create(&th[c], nullptr, thread_main, &jobs[c]) != 0) r.fail("infra", "pthread_create failed"); }
  for (int c = 0; c < nc; ++c) pthread_join(th[c], nullptr);
  r.count("probe.threads_run", nc);
  // merge the per-thread records in plan order (after the joins: ordinary happens-before, nothing shared while the clients ran)
  std::vector<size_t> at(nc, 0); int switches = 0, last = -1;
  for (size_t i = 0; i < p.ops.size(); ++i) {
    int c = ((p.ops[i].client % nc) + nc) % nc; size_t k = at[c]++;
    r.begin_op((int)i, p.ops[i]); r.count("op." + thr[c].kind);
    if (c != last) { ++switches; last = c; }
    r.log(thr[c].out[k]); r.state(mix(thr[c].out[k], (uint64_t)c));
    if (thr[c].out[k] != solo[c].out[k])
      r.fail("interference", "client " + std::to_string(c) + " (" + thr[c].kind + "): the result of its op #" + std::to_string(k) + " differs from the result of the same script run alone" +
             (thr[c].err.empty() ? "" : " (threaded: exception " + thr[c].err + ")") + (solo[c].err.empty() ? "" : " (alone: exception " + solo[c].err + ")"));
  }
  r.count("fault.thread_switches", switches);
  { long f = 0; for (int c = 0; c < nc; ++c) f += thr[c].faults; if (f) r.count("fault.alloc_failed_in_thread", f); }
  for (int c = 0; c < nc; ++c) if (!solo[c].err.empty()) r.count("probe.actor_exception");
  r.mutated = true; r.audited = true;
}

sim::Engine sim::make_engine() {
  sim::Engine e; e.name = "thr"; e.properties = {"C15"};
  e.generate = generate; e.execute = execute;
  for (int k = 0; k < NKINDS; ++k) e.configurations.push_back(KINDS[k]);
  return e;
}
