// Configurations of the own engine (-DOWN_TU=<k>)
#include "own_mat.h"
using namespace own;
namespace {
struct Opt_stable_fast_cofaces : Gudhi::Simplex_tree_options_default { static const bool link_nodes_by_label = true; static const bool stable_simplex_handles = true; };
}
#define STCFG(ID, OPT, NAME) namespace { void run_##ID(const sim::Plan& p, sim::Run& r, Obs& o) { exec_st<OPT>(p, r, o, "Simplex_tree/" NAME); } Register reg_##ID({"st", "Simplex_tree/" NAME, run_##ID}); }
#define MCFG(ID, NAME, ...) namespace { void run_##ID(const sim::Plan& p, sim::Run& r, Obs& o) { exec_mat<MOpt<__VA_ARGS__>>(p, r, o, "Matrix/" NAME); } Register reg_##ID({"mat", "Matrix/" NAME, run_##ID}); }
// MOpt<column type, z2, family(0 base,1 boundary-type,2 chain), rows, intrusive, removable rows, map, swaps, compression, barcode, rep, vine>
#if OWN_TU == 0
STCFG(s0, Gudhi::Simplex_tree_options_default, "default")
STCFG(s1, Gudhi::Simplex_tree_options_full_featured, "full_featured")
#elif OWN_TU == 1
STCFG(s2, Gudhi::Simplex_tree_options_fast_persistence, "fast_persistence")
STCFG(s3, Opt_stable_fast_cofaces, "stable_fast_cofaces")
#elif OWN_TU == 2
MCFG(m0, "base/INTRUSIVE_LIST/z5/introws/swaps", Column_types::INTRUSIVE_LIST, false, 0, true, true, false, false, true, false, false, false, false)
MCFG(m1, "base/INTRUSIVE_SET/z2/introws-rem/compressed", Column_types::INTRUSIVE_SET, true, 0, true, true, true, false, false, true, false, false, false)
#elif OWN_TU == 3
MCFG(m2, "RU/INTRUSIVE_SET/z2/introws/map/barcode/vine", Column_types::INTRUSIVE_SET, true, 1, true, true, false, true, false, false, true, false, true)
MCFG(m3, "chain/INTRUSIVE_LIST/z2/introws-rem/map/barcode/vine", Column_types::INTRUSIVE_LIST, true, 2, true, true, true, true, false, false, true, false, true)
#elif OWN_TU == 4
MCFG(m4, "boundary/VECTOR/z5/norows/barcode", Column_types::VECTOR, false, 1, false, true, false, false, false, false, true, false, false)
MCFG(m5, "chain/SET/z5/setrows/barcode/rep", Column_types::SET, false, 2, true, false, false, false, false, false, true, true, false)
#elif OWN_TU == 5
MCFG(m6, "base/HEAP/z5/norows/map/swaps", Column_types::HEAP, false, 0, false, true, false, true, true, false, false, false, false)
MCFG(m7, "RU/LIST/z5/norows/barcode/rep", Column_types::LIST, false, 1, false, true, false, false, false, false, true, true, false)
#elif OWN_TU == 6
// index overlays: a chain matrix addressed by position (Position_to_index_overlay), boundary-type matrices addressed by identifier (Id_to_index_overlay)
MCFG(m8, "chain/INTRUSIVE_SET/z2/norows/map/barcode/POSITION", Column_types::INTRUSIVE_SET, true, 2, false, true, false, true, false, false, true, false, false, 1)
MCFG(m9, "RU/SET/z5/norows/barcode/rep/IDENTIFIER", Column_types::SET, false, 1, false, true, false, false, false, false, true, true, false, 2)
#elif OWN_TU == 7
MCFG(m10, "RU/INTRUSIVE_LIST/z2/introws/map/barcode/vine/IDENTIFIER", Column_types::INTRUSIVE_LIST, true, 1, true, true, false, true, false, false, true, false, true, 2)
MCFG(m11, "chain/NAIVE_VECTOR/z5/setrows-rem/barcode/rep/POSITION", Column_types::NAIVE_VECTOR, false, 2, true, false, true, false, false, false, true, true, false, 1)
#elif OWN_TU == 8
MCFG(m12, "chain/LIST/z2/norows/map/barcode/IDENTIFIER", Column_types::LIST, true, 2, false, true, false, true, false, false, true, false, false, 2)
MCFG(m13, "boundary/UNORDERED_SET/z2/norows/map/barcode/IDENTIFIER", Column_types::UNORDERED_SET, true, 1, false, true, false, true, false, false, true, false, false, 2)
#endif
