// Engine `pm_hist` (C05, C06, C08): plan generators and dispatcher. A plan names a group of configurations sharing the same
// coefficient field and operation set; it is executed on every configuration of the group in lock-step, each against the
// filtration model, and the barcodes observed must agree between configurations.
#include "pm_hist_impl.h"

namespace pmh { std::vector<Config>& configs() { static std::vector<Config> c; return c; } }

namespace {
using sim::Rng;

std::vector<std::string> groups(bool vine) {
  std::vector<std::string> g;
  for (auto& c : pmh::configs()) { bool v = c.group.find("vine") != std::string::npos; if (v == vine && std::find(g.begin(), g.end(), c.group) == g.end()) g.push_back(c.group); }
  std::sort(g.begin(), g.end());
  return g;
}

sim::Plan generate(const std::string& prop, uint64_t subseed, const sim::Tier& tier) {
  Rng rng(subseed);
  sim::Plan p;
  const bool vine = prop == "C06";
  auto gs = groups(vine);
  if (prop == "C08") { std::vector<std::string> g2; for (auto& g : gs) if (g.find("ru") != std::string::npos || g.find("chain") != std::string::npos) g2.push_back(g); gs = g2; }
  p.set("group", gs[rng.below((long)gs.size())]);
  static const long primes[] = {3, 5, 7, 11};
  p.seti("p", primes[rng.below(4)]);
  p.seti("nv", rng.range(3, 5)); p.seti("maxdim", rng.range(1, 3)); p.seti("maxcells", tier.thorough() ? 14 : 12);
  p.seti("unit_seed", rng.below(1 << 30)); p.seti("rescale", rng.chance(3, 4) ? 1 : 0);
  p.seti("custom_ids", rng.chance(2, 3) ? 1 : 0); p.seti("id_gaps", rng.chance(1, 2) ? 1 : 0); p.seti("reuse_ids", rng.chance(1, 2) ? 1 : 0);
  p.seti("reserve", rng.chance(3, 4) ? 1 : 0);
  int nops = (int)rng.range(4, tier.thorough() ? 50 : 36);
  int audit_every = (int)rng.range(1, 5);
  if (vine) {
    // a seeded walk in the graph of admissible filtration orders, interleaved with removals and insertions
    p.seti("custom_ids", rng.chance(1, 3) ? 1 : 0);
    int n0 = (int)rng.range(3, 10);
    for (int i = 0; i < n0; ++i) p.add(0, "ins", {(long)rng.below(4096), (long)rng.below(3), (long)rng.below(2)});
    p.add(2, "audit");
    if (rng.chance(1, 4)) {
      // phased walk: a few swaps, then a deep truncation (several removals in a row), then the complex is grown again - state left behind by a
      // swap in a slot that only a later re-insertion at the same position reads again
      int rounds = (int)rng.range(1, 3);
      for (int q = 0; q < rounds; ++q) {
        int ns = (int)rng.range(1, 4), nr = (int)rng.range(2, 6), ni = (int)rng.range(2, 7);
        for (int i = 0; i < ns; ++i) p.add(1, "swap", {(long)rng.below(4096), (long)rng.below(3)});
        if (rng.chance(1, 2)) p.add(2, "audit");
        for (int i = 0; i < nr; ++i) p.add(3, "rm_last");
        for (int i = 0; i < ni; ++i) p.add(0, "ins", {(long)rng.below(4096), (long)rng.below(3), (long)rng.below(2)});
        p.add(2, "audit");
      }
      p.set("walk", "phased");
      return p;
    }
    int w_swap = (int)rng.range(5, 12), w_z1 = rng.chance(1, 2) ? (int)rng.range(1, 3) : 0, w_rml = rng.chance(2, 3) ? (int)rng.range(1, 2) : 0, w_rmx = rng.chance(2, 3) ? (int)rng.range(1, 3) : 0, w_ins = rng.chance(3, 4) ? (int)rng.range(1, 3) : 0;
    for (int i = 0; i < nops; ++i) {
      long k = rng.below(w_swap + w_z1 + w_rml + w_rmx + w_ins);
      if (k < w_swap) p.add(1, "swap", {(long)rng.below(4096), (long)rng.below(3)});
      else if (k < w_swap + w_z1) p.add(1, "swap_z1", {(long)rng.below(4096), (long)rng.below(3)});
      else if (k < w_swap + w_z1 + w_rml) p.add(3, "rm_last");
      else if (k < w_swap + w_z1 + w_rml + w_rmx) p.add(3, "rm_max", {(long)rng.below(4096), (long)rng.below(2), (long)rng.below(2)});
      else p.add(0, "ins", {(long)rng.below(4096), (long)rng.below(3), (long)rng.below(2)});
      if (rng.below(audit_every) == 0) p.add(2, "audit");
    }
    p.add(2, "audit");
    return p;
  }
  int w_ins = (int)rng.range(4, 10), w_rm = rng.chance(3, 4) ? (int)rng.range(1, 4) : 0, w_cyc = prop == "C08" ? (int)rng.range(2, 5) : 0;  // representative cycles are C08's subject
  for (int i = 0; i < nops; ++i) {
    long k = rng.below(w_ins + w_rm + w_cyc);
    if (k < w_ins) p.add(0, "ins", {(long)rng.below(4096), (long)rng.below(3), (long)rng.below(2)});
    else if (k < w_ins + w_rm) { p.add(1, "rm_last"); if (rng.chance(1, 3)) p.add(1, "rm_last"); }
    else if (w_cyc) p.add(2, "cycles");
    if (rng.below(audit_every) == 0) p.add(2, "audit");
  }
  if (prop == "C08") p.add(2, "cycles");
  p.add(2, "audit");
  return p;
}

void execute(const sim::Plan& p, sim::Run& r) {
  std::string grp = p.get("group"), only = p.get("only_config");
  if (p.get("walk") == "phased") r.count("probe.phased_walk_swap_truncate_regrow");
  std::vector<std::pair<std::string, pmh::Obs>> all;
  for (auto& c : pmh::configs()) {
    if (c.group != grp) continue;
    if (!only.empty() && only != c.name) continue;
    pmh::Obs o; r.log(c.name);
    try { c.exec(p, r, o); } catch (const sim::Failure&) { throw; } catch (const std::exception& ex) { r.fail("exception", std::string("[") + c.name + "] unexpected exception: " + ex.what()); }
    all.emplace_back(c.name, o);
  }
  if (all.empty()) r.fail("harness", "no configuration of group " + grp + " compiled in");
}
}  // namespace

sim::Engine sim::make_engine() {
  sim::Engine e; e.name = "pm_hist"; e.properties = {"C05", "C06", "C08"}; e.generate = generate; e.execute = execute;
  for (auto& c : pmh::configs()) e.configurations.push_back(c.name);
  return e;
}
