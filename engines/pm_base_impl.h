// Templated executor of the pm_base engine (C09): a general-purpose Matrix<Options> driven by a plan and checked against the
// dense model M2 (vector of columns over Z_p, public row permutation, classes of identical columns for the compressed variant).
#pragma once
#include "../sim/core.h"
#include "../models/linalg.h"
#include <gudhi/Matrix.h>
#include <gudhi/persistence_matrix_options.h>
#include <map>
#include <set>

namespace pmb {

using namespace Gudhi::persistence_matrix;
typedef std::vector<unsigned> DCol;  // dense column, NR rows

struct Obs { std::vector<uint64_t> digests; bool tainted = false; };  // tainted: a known-finding fence skipped an op in this configuration only
typedef void (*ExecFn)(const sim::Plan&, sim::Run&, Obs&);
struct Config { std::string family; std::string name; ExecFn exec; };
std::vector<Config>& configs();
struct Register { Register(const Config& c) { configs().push_back(c); } };

inline const char* column_name(Column_types c) {
  switch (c) { case Column_types::LIST: return "LIST"; case Column_types::SET: return "SET"; case Column_types::HEAP: return "HEAP"; case Column_types::VECTOR: return "VECTOR";
    case Column_types::NAIVE_VECTOR: return "NAIVE_VECTOR"; case Column_types::SMALL_VECTOR: return "SMALL_VECTOR"; case Column_types::UNORDERED_SET: return "UNORDERED_SET";
    case Column_types::INTRUSIVE_LIST: return "INTRUSIVE_LIST"; default: return "INTRUSIVE_SET"; }
}

template <class Opt>
struct Exec {
  typedef Matrix<Opt> M;
  static constexpr bool Z2 = Opt::is_z2;
  static constexpr bool ROWS = Opt::has_row_access;
  static constexpr bool REM_ROWS = Opt::has_removable_rows;
  static constexpr bool MAP = Opt::has_map_column_container;
  static constexpr bool SWAPS = Opt::has_column_and_row_swaps;
  static constexpr bool COMP = Opt::has_column_compression;
  static constexpr bool HEAP = Opt::column_type == Column_types::HEAP;
  static constexpr bool UNORDERED = Opt::column_type == Column_types::UNORDERED_SET;
  static constexpr bool LAZY_VECTOR = Opt::column_type == Column_types::VECTOR;  // documented lazy removal: raw iteration may still show erased entries

  const sim::Plan& p; sim::Run& r; Obs& obs; std::string cfg;
  unsigned P; int NR;
  // model: live columns by index; for the compressed variant, cls[i] = class id, content per class
  std::map<unsigned, DCol> cols;        // plain variant
  std::vector<int> cls; std::map<int, DCol> content; int next_cls = 0;  // compressed variant
  unsigned next_index = 0;

  Exec(const sim::Plan& p_, sim::Run& r_, Obs& o_, const std::string& c) : p(p_), r(r_), obs(o_), cfg(c) {
    P = Z2 ? 2 : (unsigned)p.geti("p", 5); NR = (int)p.geti("nr", 6);
  }
  [[noreturn]] void fail(const std::string& oracle, const std::string& d) { r.fail(oracle, "[" + cfg + "] " + d); }
#define PM_REQ(cond, oracle, d) do { if (!(cond)) fail((oracle), (d)); } while (0)

  DCol gen_col(uint64_t seed) const {
    sim::Rng g(seed | 1); DCol c(NR, 0);
    int dens = (int)g.below(5);  // 0: empty column
    for (int i = 0; i < NR; ++i) if (g.below(4) < dens) c[i] = 1 + (unsigned)g.below(P - 1);
    if (dens == 4 && g.chance(1, 2)) { std::fill(c.begin(), c.end(), 0); c[g.below(NR)] = 1 + (unsigned)g.below(P - 1); }  // singleton
    return c;
  }
  template <class Mat> static void api_insert(Mat& m, const DCol& c) {
    if constexpr (Z2) { std::vector<unsigned> e; for (size_t i = 0; i < c.size(); ++i) if (c[i]) e.push_back((unsigned)i); m.insert_column(e); }
    else { std::vector<std::pair<unsigned, unsigned>> e; for (size_t i = 0; i < c.size(); ++i) if (c[i]) e.push_back({(unsigned)i, c[i]}); m.insert_column(e); }
  }
  template <class Mat> static void api_insert_at(Mat& m, const DCol& c, unsigned idx) {
    if constexpr (Z2) { std::vector<unsigned> e; for (size_t i = 0; i < c.size(); ++i) if (c[i]) e.push_back((unsigned)i); m.insert_column(e, idx); }
    else { std::vector<std::pair<unsigned, unsigned>> e; for (size_t i = 0; i < c.size(); ++i) if (c[i]) e.push_back({(unsigned)i, c[i]}); m.insert_column(e, idx); }
  }
  static std::string cstr(const DCol& c) { std::string s = "["; for (size_t i = 0; i < c.size(); ++i) { if (i) s += " "; s += std::to_string(c[i]); } return s + "]"; }

  // ---- model accessors (uniform over plain / compressed)
  std::vector<unsigned> live() const { std::vector<unsigned> v; if constexpr (COMP) { for (unsigned i = 0; i < cls.size(); ++i) v.push_back(i); } else { for (auto& kv : cols) v.push_back(kv.first); } return v; }
  const DCol& mcol(unsigned i) const { if constexpr (COMP) return content.at(cls[i]); else return cols.at(i); }
  void set_col(unsigned t, const DCol& v) {
    if constexpr (COMP) {
      int c = cls[t]; content[c] = v;
      // identical non-zero columns share one representative: merge classes with equal content
      if (!model::is_zero(v, P)) for (auto& kv : content) if (kv.first != c && kv.second == v) { int o = kv.first; for (auto& x : cls) if (x == o) x = c; content.erase(o); break; }
    } else cols[t] = v;
  }
  unsigned coef(long c) const { return model::zp_norm(c, P); }

  void audit(M& m, uint64_t seed) {
    sim::Rng g(seed | 1);
    auto lv = live();
    size_t ncols = m.get_number_of_columns();
    if constexpr (MAP && !COMP) PM_REQ(ncols == lv.size(), "dense", "get_number_of_columns=" + std::to_string(ncols) + " model " + std::to_string(lv.size()));
    else PM_REQ(ncols == next_index, "dense", "get_number_of_columns=" + std::to_string(ncols) + " model " + std::to_string(next_index));
    g.shuffle(lv);
    uint64_t dig = 1469598103934665603ull;
    for (unsigned i : lv) {
      const DCol& e = mcol(i);
      // seeded read order: the reads below trigger the lazy paths (row ordering, heap pruning, vector compaction) at different moments
      int order = (int)g.below(3);
      for (int step = 0; step < 3; ++step) {
        int what = (order + step) % 3;
        if (what == 0) {
          auto got = m.get_column(i).get_content(NR);
          PM_REQ((int)got.size() == NR, "dense", "get_content(" + std::to_string(NR) + ") has size " + std::to_string(got.size()));
          for (int k = 0; k < NR; ++k) PM_REQ((unsigned)got[k] == e[k], "dense", "column " + std::to_string(i) + " reads " + [&] { DCol t; for (auto x : got) t.push_back((unsigned)x); return cstr(t); }() + " model " + cstr(e));
        } else if (what == 1) {
          // with lazy row swaps only rows that have held an entry are known to the permutation: rows beyond are not queried
          for (int k = 0; k < NR; ++k) if (!SWAPS || row_known(k)) PM_REQ(m.is_zero_entry(i, k) == (e[k] == 0), "dense", "is_zero_entry(" + std::to_string(i) + "," + std::to_string(k) + ")=" + std::to_string(m.is_zero_entry(i, k)) + " model column " + cstr(e));
          if (!SWAPS) PM_REQ(m.is_zero_entry(i, NR + 3), "dense", "is_zero_entry beyond the last row is false");
        } else {
          PM_REQ(m.is_zero_column(i) == model::is_zero(e, P), "dense", "is_zero_column(" + std::to_string(i) + ")=" + std::to_string(m.is_zero_column(i)) + " model column " + cstr(e));
        }
      }
      // the column as a range of entries
      if constexpr (!HEAP && !LAZY_VECTOR) {
        DCol seen(NR, 0); long prev = -1; bool sorted = true;
        for (const auto& en : m.get_column(i)) {
          long row = (long)en.get_row_index(); PM_REQ(row >= 0 && row < NR, "dense", "entry with row index " + std::to_string(row) + " in column " + std::to_string(i));
          PM_REQ(seen[row] == 0, "dense", "row " + std::to_string(row) + " listed twice in column " + std::to_string(i));
          unsigned v; if constexpr (Z2) v = 1; else v = (unsigned)en.get_element();
          seen[row] = v; if (row < prev) sorted = false; prev = row;
          if constexpr (ROWS && !COMP) PM_REQ(en.get_column_index() == i, "rowview", "entry of column " + std::to_string(i) + " says column " + std::to_string(en.get_column_index()));
        }
        PM_REQ(seen == e, "dense", "iterating column " + std::to_string(i) + " gives " + cstr(seen) + " model " + cstr(e));
        if (!UNORDERED) PM_REQ(sorted, "dense", "entries of column " + std::to_string(i) + " are not sorted by row");
      }
      for (unsigned x : e) { dig ^= x + 1; dig *= 1099511628211ull; }
      dig ^= i; dig *= 1099511628211ull;
    }
    if constexpr (ROWS) {
      // each row lists exactly the non-zero entries of that row (one per class of identical columns in the compressed variant)
      for (int k = 0; k < NR; ++k) {
        std::map<long, unsigned> exp;  // key: column (plain) or class (compressed)
        for (unsigned i : lv) if (mcol(i)[k]) { if constexpr (COMP) exp[cls[i]] = mcol(i)[k]; else exp[i] = mcol(i)[k]; }
        bool exists = true;
        if constexpr (REM_ROWS) { if (exp.empty()) exists = false; }  // a removable row that was never created or was erased cannot be read
        else { if (k > max_row_seen) exists = false; }
        if (!exists) continue;
        std::map<long, unsigned> got;
        try {
          for (const auto& en : m.get_row(k)) {
            long c = (long)en.get_column_index(); long key = c;
            if constexpr (COMP) { PM_REQ(c >= 0 && c < (long)cls.size(), "rowview", "row entry with column index " + std::to_string(c)); key = cls[c]; }
            PM_REQ(!got.count(key), "rowview", "row " + std::to_string(k) + " lists column " + std::to_string(c) + " twice");
            unsigned v; if constexpr (Z2) v = 1; else v = (unsigned)en.get_element();
            got[key] = v;
            PM_REQ((long)en.get_row_index() == k, "rowview", "entry in row " + std::to_string(k) + " says row " + std::to_string(en.get_row_index()));
          }
        } catch (const std::out_of_range&) { PM_REQ(exp.empty(), "rowview", "get_row(" + std::to_string(k) + ") throws although the row has non-zero entries"); continue; }
        PM_REQ(got == exp, "rowview", "row " + std::to_string(k) + " lists " + std::to_string(got.size()) + " entries, model " + std::to_string(exp.size()) + " (or a value differs)");
      }
    }
    obs.digests.push_back(dig);
    r.log(dig); r.audited = true;
  }
  std::set<int> known_rows;  // rows of the columns inserted so far: the only rows the lazy permutation / row container know about
  void note_inserted(const DCol& c) { for (int k = 0; k < NR; ++k) if (c[k]) known_rows.insert(k); note_rows(c); }
  bool row_known(int k) const { if constexpr (MAP) return known_rows.count(k) > 0; else return !known_rows.empty() && k <= *known_rows.rbegin(); }
  int max_row_seen = -1; std::set<int> rows_alive;  // rows that received an entry and were not erased since
  void note_rows(const DCol& c) { for (int k = 0; k < NR; ++k) if (c[k]) { max_row_seen = std::max(max_row_seen, k); rows_alive.insert(k); } }

  void run() {
    M m(0, P);
    M aux(0, P);  // source of entry ranges that do not live in m
    unsigned aux_n = 0;
    for (size_t i = 0; i < p.ops.size(); ++i) {
      const sim::Op& op = p.ops[i];
      r.begin_op((int)i, op);
      const std::string& nm = op.name;
      auto lv = live();
      auto pick = [&](long a) -> long { return lv.empty() ? -1 : (long)lv[a % lv.size()]; };
      if (nm == "ins" || nm == "ins_dup") {
        DCol c = gen_col((uint64_t)op.arg(0));
        if (nm == "ins_dup") { long t = pick(op.arg(0)); if (t < 0) { r.skipped(); continue; } c = mcol((unsigned)t); r.count("probe.insert_duplicate_column"); } api_insert(m, c); note_inserted(c);
        if constexpr (COMP) { cls.push_back(next_cls); content[next_cls] = c; ++next_cls; set_col(next_index, c); } else cols[next_index] = c;
        ++next_index; r.mutated = true;
        if (model::is_zero(c, P)) r.count("probe.insert_empty_column");
      } else if (nm == "ins_at") {
        if constexpr (MAP && !ROWS && !COMP) {
          // only at an index whose column was explicitly removed before, or at the end
          std::vector<unsigned> holes; for (unsigned k = 0; k < next_index; ++k) if (!cols.count(k)) holes.push_back(k);
          unsigned idx = holes.empty() || op.arg(1) % 3 == 0 ? next_index : holes[op.arg(1) % holes.size()];
          DCol c = gen_col((uint64_t)op.arg(0)); api_insert_at(m, c, idx); note_inserted(c);
          cols[idx] = c; if (idx >= next_index) next_index = idx + 1; r.mutated = true; r.count("probe.insert_at_index");
        } else { r.skipped(); continue; }
      } else if (nm == "rm_col") {
        if constexpr (MAP && !COMP) {
          long t = pick(op.arg(0)); if (t < 0) { r.skipped(); continue; }
          m.remove_column((unsigned)t); cols.erase((unsigned)t); if ((unsigned)t == next_index - 1) --next_index; r.mutated = true; r.count("probe.remove_column");
        } else { r.skipped(); continue; }
      } else if (nm == "rm_last") {
        if constexpr (!COMP) {
          if (next_index == 0 || !cols.count(next_index - 1)) { r.skipped(); continue; }  // "holes" at the end are not generated
          m.remove_last(); cols.erase(next_index - 1); --next_index; r.mutated = true; r.count("probe.remove_last");
        } else { r.skipped(); continue; }
      } else if (nm == "add" || nm == "mta" || nm == "msa") {
        long s = pick(op.arg(0)), t = pick(op.arg(1)); if (s < 0 || t < 0) { r.skipped(); continue; }
        if (op.arg(4, 1) % 8 == 0) s = t;  // a column added to itself
        if (s == t) r.count("probe.add_column_to_itself");
        if constexpr (COMP) { if (cls[s] == cls[t]) r.count("probe.add_within_one_class"); }  // same representative: the source is the target
        bool from_range = op.arg(3) % 3 == 0;  // source given as a range of entries living in another matrix
        DCol src = from_range ? gen_col((uint64_t)op.arg(3)) : mcol((unsigned)s);
        // an entry range from outside may only use rows the matrix already knows when it keeps a row container or a row permutation
        if (from_range && (SWAPS || ROWS)) for (int k = 0; k < NR; ++k) if (src[k] && !row_known(k)) src[k] = 0;
        const DCol tgt = mcol((unsigned)t);
        if constexpr (COMP) { if (model::is_zero(tgt, P)) r.count("probe.add_into_zero_compressed"); }
        if (model::is_zero(tgt, P)) r.count("probe.target_empty");
        if (model::is_zero(src, P)) r.count("probe.source_empty");
        long c = op.arg(2);  // raw coefficient: 0, 1, p-1, values >= p, negative values
        DCol res(NR, 0);
        unsigned cf = coef(c);
        if (from_range) { api_insert(aux, src); ++aux_n; }
        if (nm == "add") {
          for (int k = 0; k < NR; ++k) res[k] = (tgt[k] + src[k]) % P;
          if (from_range) m.add_to(aux.get_column(aux_n - 1), (unsigned)t); else m.add_to((unsigned)s, (unsigned)t);
        } else if (nm == "mta") {
          for (int k = 0; k < NR; ++k) res[k] = (unsigned)(((uint64_t)tgt[k] * cf + src[k]) % P);
          if (from_range) m.multiply_target_and_add_to(aux.get_column(aux_n - 1), (int)c, (unsigned)t); else m.multiply_target_and_add_to((unsigned)s, (int)c, (unsigned)t);
          if (cf == 0) r.count("probe.coefficient_zero"); if (cf == 1) r.count("probe.coefficient_one");
        } else {
          for (int k = 0; k < NR; ++k) res[k] = (unsigned)((tgt[k] + (uint64_t)cf * src[k]) % P);
          if (from_range) m.multiply_source_and_add_to((int)c, aux.get_column(aux_n - 1), (unsigned)t); else m.multiply_source_and_add_to((int)c, (unsigned)s, (unsigned)t);
          if (cf == 0) r.count("probe.coefficient_zero"); if (cf == 1) r.count("probe.coefficient_one");
        }
        note_rows(res); note_rows(src);
        set_col((unsigned)t, res); r.mutated = true;
      } else if (nm == "zero_entry") {
        if constexpr (!COMP) {
          long t = pick(op.arg(0)); if (t < 0) { r.skipped(); continue; }
          int k = (int)(op.arg(1) % NR);
          if (SWAPS && !row_known(k)) { r.skipped(); continue; }
          // bias towards present entries half of the time
          if (op.arg(2) % 2 == 0) { std::vector<int> pres; for (int q = 0; q < NR; ++q) if (cols[(unsigned)t][q]) pres.push_back(q); if (!pres.empty()) k = pres[op.arg(1) % pres.size()]; }
          r.count(cols[(unsigned)t][k] ? "probe.zero_present_entry" : "probe.zero_absent_entry");
          if constexpr (LAZY_VECTOR && ROWS) { if (cols[(unsigned)t][k]) r.count("probe.lazy_vector_zero_entry_with_rows"); }
          m.zero_entry((unsigned)t, (unsigned)k); cols[(unsigned)t][k] = 0; r.mutated = true;
        } else { r.skipped(); continue; }
      } else if (nm == "zero_col") {
        if constexpr (!COMP) {
          long t = pick(op.arg(0)); if (t < 0) { r.skipped(); continue; }
          m.zero_column((unsigned)t); std::fill(cols[(unsigned)t].begin(), cols[(unsigned)t].end(), 0); r.mutated = true;
        } else { r.skipped(); continue; }
      } else if (nm == "swap_cols") {
        if constexpr (SWAPS && !COMP) {
          long a = pick(op.arg(0)), b = pick(op.arg(1)); if (a < 0 || b < 0) { r.skipped(); continue; }
          if constexpr (ROWS) { if (a != b) r.count("probe.swap_columns_with_rows"); }
          m.swap_columns((unsigned)a, (unsigned)b); std::swap(cols[(unsigned)a], cols[(unsigned)b]); r.mutated = true; r.count("probe.swap_columns");
        } else { r.skipped(); continue; }
      } else if (nm == "swap_rows") {
        if constexpr (SWAPS && !COMP) {
          int a = (int)(op.arg(0) % NR), b = (int)(op.arg(1) % NR);
          if (!row_known(a) || !row_known(b)) { r.skipped(); continue; }  // rows that exist so far
          m.swap_rows((unsigned)a, (unsigned)b); for (auto& kv : cols) std::swap(kv.second[a], kv.second[b]); r.mutated = true; r.count("probe.swap_rows");
        } else { r.skipped(); continue; }
      } else if (nm == "erase_row") {
        if constexpr (ROWS && REM_ROWS) {
          // documented: only empty rows (that exist): pick among the eligible ones
          std::vector<int> elig; for (int q : rows_alive) { bool empty = true; for (unsigned c : lv) if (mcol(c)[q]) empty = false; if (empty) elig.push_back(q); }
          if (elig.empty()) { r.skipped(); continue; }
          int k = elig[op.arg(0) % elig.size()];
          m.erase_empty_row((unsigned)k); rows_alive.erase(k); r.count("probe.erase_empty_row");
          if (MAP && SWAPS) known_rows.erase(k);  // documented: cleans up the maps of the lazy row swaps
        } else { r.skipped(); continue; }
      } else if (nm == "audit") {
        audit(m, (uint64_t)op.arg(0));
      } else { r.skipped(); continue; }
      // state hash
      uint64_t h = 1469598103934665603ull; for (unsigned c : live()) { h ^= c; h *= 1099511628211ull; for (unsigned x : mcol(c)) { h ^= x + 7; h *= 1099511628211ull; } }
      r.state(h);
    }
  }
#undef PM_REQ
};

template <class Opt> void exec_config(const sim::Plan& p, sim::Run& r, Obs& o, const std::string& name) { Exec<Opt> e(p, r, o, name); e.run(); }

// option families (everything except the column type)
template <Column_types ct, bool z2, bool rows, bool intr, bool remrows, bool mapc, bool swaps, bool comp>
struct Opt : Default_options<ct, z2> {
  static const bool has_row_access = rows; static const bool has_intrusive_rows = intr; static const bool has_removable_rows = remrows;
  static const bool has_map_column_container = mapc; static const bool has_column_and_row_swaps = swaps; static const bool has_column_compression = comp;
};

}  // namespace pmb
