// Engine `zz_hist` (C07): seeded single-cell insertion / removal / identity histories streamed into Zigzag_persistence (all
// column types) and both filtered front-ends in lock-step; oracle = interval decomposition from generalised ranks (M5).
#include "zz_impl.h"
namespace zzh { std::vector<Config>& configs() { static std::vector<Config> c; return c; } }
namespace {
sim::Plan generate(const std::string&, uint64_t subseed, const sim::Tier& tier) {
  sim::Rng rng(subseed); sim::Plan p;
  p.seti("max_arrows", tier.thorough() ? 30 : 26);
  p.seti("prealloc", rng.chance(1, 2) ? 0 : rng.range(1, 40));
  p.seti("dim_max", rng.chance(1, 2) ? -1 : rng.range(0, 3)); p.seti("shortest", rng.chance(1, 2) ? 0 : rng.range(1, 4));
  p.seti("direction", rng.chance(1, 2) ? 1 : -1); p.seti("value0", rng.range(-4, 8));
  p.seti("key_mul", rng.chance(1, 2) ? 1 : rng.range(2, 1000)); p.seti("key_add", rng.chance(1, 2) ? 0 : rng.range(-500, 100000));
  int nops = (int)rng.range(4, 40);
  int w_ins = (int)rng.range(4, 10), w_rem = (int)rng.range(1, 7), w_id = rng.chance(1, 2) ? (int)rng.range(1, 2) : 0;
  int audits = 0;
  for (int i = 0; i < nops; ++i) {
    long k = rng.below(w_ins + w_rem + w_id);
    if (k < w_ins) p.add(0, "ins", {(long)rng.below(4096), (long)rng.below(3)});
    else if (k < w_ins + w_rem) { p.add(1, "rem", {(long)rng.below(4096), (long)rng.below(3)}); if (rng.chance(1, 3)) p.add(0, "ins", {0, (long)rng.below(3)}); }  // removal -> re-insertion
    else p.add(2, "id", {0, 0});
    if (audits < 2 && rng.chance(1, 12)) { p.add(3, "audit"); ++audits; }
  }
  p.add(3, "audit");
  return p;
}
void execute(const sim::Plan& p, sim::Run& r) {
  std::string only = p.get("only_config");
  std::vector<std::pair<std::string, std::vector<zzh::Interval>>> all;
  for (auto& c : zzh::configs()) {
    if (!only.empty() && only != c.name) continue;
    std::vector<zzh::Interval> out; r.log(c.name);
    try { c.exec(p, r, out); } catch (const sim::Failure&) { throw; } catch (const std::exception& ex) { r.fail("exception", "[" + c.name + "] unexpected exception: " + ex.what()); }
    all.emplace_back(c.name, out);
  }
}
}  // namespace
sim::Engine sim::make_engine() {
  sim::Engine e; e.name = "zz_hist"; e.properties = {"C07"}; e.generate = generate; e.execute = execute;
  for (auto& c : zzh::configs()) e.configurations.push_back(c.name);
  return e;
}
