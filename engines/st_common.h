// Shared declarations of the st_hist engine (C01, C03, C04): one executor per Simplex_tree option set, compiled in its own
// translation unit (st_cfg.cpp with -DST_CFG=<k>), all driven by the same plan.
#pragma once
#include "../sim/core.h"
#include "../models/complex.h"
#include <string>
#include <vector>

namespace sth {

// observations that must be identical across option sets / builds for the same plan (e.g. the filtration order)
struct Obs { std::vector<std::pair<std::string, std::string>> items; void add(const std::string& tag, const std::string& v) { items.emplace_back(tag, v); } };

typedef void (*ExecFn)(const sim::Plan&, sim::Run&, Obs&);
struct Config {
  const char* name;
  bool contiguous;       // SimplexTreeOptions::contiguous_vertices
  bool store_filtration;
  bool link_nodes;       // link_nodes_by_label
  bool tbb_path;         // compiled with GUDHI_USE_TBB (sort seam) or sequential path
  ExecFn exec;
};
std::vector<Config>& configs();
struct Register { Register(const Config& c) { configs().push_back(c); } };

// value table shared by generator, model and executors: exact in float and double
inline double value_of(long vi) { vi = ((vi % 14) + 14) % 14; return vi == 13 ? std::numeric_limits<double>::infinity() : 0.25 * (double)vi; }

}  // namespace sth
