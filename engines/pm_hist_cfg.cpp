// Configurations of the pm_hist engine, a few per translation unit (-DPMH_TU=<k>).
// CFG(group, ct, z2, family, indexing(0 container,1 position,2 identifier), rows, intrusive, removable rows, map container, barcode, rep, vine)
#include "pm_hist_impl.h"
using namespace pmh;
#define STR2(x) #x
#define STR(x) STR2(x)
#define CFG(ID, GROUP, CT, Z2, FAM, IDX, ROWS, INTR, REMR, MAPC, BAR, REP, VINE) \
  namespace { void run_##ID(const sim::Plan& p, sim::Run& r, Obs& o) { exec_config<HOpt<Column_types::CT, Z2, FAM, IDX, ROWS, INTR, REMR, MAPC, BAR, REP, VINE>>(p, r, o, \
      std::string(GROUP) + "/" #CT "/" + (FAM == BND ? "R-only" : FAM == RU ? "RU" : "chain") + "/idx" #IDX + (ROWS ? (INTR ? "/introws" : "/setrows") : "/norows") + (REMR ? "-rem" : "") + (MAPC ? "/map" : "/vector") + (BAR ? "/barcode" : "/nobarcode") + (REP ? "/rep" : "") + (VINE ? "/vine" : "")); } \
    Register reg_##ID({GROUP, std::string(GROUP) + "/" #CT "/" #ID, run_##ID}); }

#if PMH_TU == 0
CFG(a0, "bnd-z2", INTRUSIVE_SET, true, BND, 0, false, true, false, false, true, false, false)
CFG(a1, "bnd-z2", HEAP, true, BND, 2, false, true, false, true, true, false, false)
#elif PMH_TU == 1
CFG(a2, "bnd-z2", VECTOR, true, BND, 0, true, false, true, true, true, false, false)
CFG(a3, "bnd-z2", LIST, true, BND, 2, true, true, false, false, true, false, false)
#elif PMH_TU == 2
CFG(b0, "bnd-zp", SET, false, BND, 0, false, true, false, false, true, false, false)
CFG(b1, "bnd-zp", NAIVE_VECTOR, false, BND, 2, false, true, false, true, true, false, false)
#elif PMH_TU == 3
CFG(b2, "bnd-zp", UNORDERED_SET, false, BND, 0, true, true, true, true, true, false, false)
CFG(b3, "bnd-zp", SMALL_VECTOR, false, BND, 2, false, true, false, false, true, false, false)
#elif PMH_TU == 4
CFG(c0, "ru-z2", INTRUSIVE_LIST, true, RU, 0, false, true, false, false, true, true, false)
CFG(c1, "ru-z2", SET, true, RU, 0, true, true, false, false, true, true, false)
#elif PMH_TU == 5
CFG(c2, "ru-z2", NAIVE_VECTOR, true, RU, 1, true, false, true, true, true, true, false)
CFG(c3, "ru-z2", VECTOR, true, RU, 2, false, true, false, true, true, true, false)
#elif PMH_TU == 6
CFG(d0, "ru-zp", INTRUSIVE_LIST, false, RU, 0, false, true, false, false, true, true, false)
CFG(d1, "ru-zp", SET, false, RU, 0, true, true, false, true, true, true, false)
#elif PMH_TU == 7
CFG(d2, "ru-zp", NAIVE_VECTOR, false, RU, 1, true, false, false, false, true, true, false)
CFG(d3, "ru-zp", UNORDERED_SET, false, RU, 2, false, true, false, false, true, true, false)
#elif PMH_TU == 8
CFG(e0, "chain-z2", INTRUSIVE_SET, true, CHAIN, 0, false, true, false, false, true, false, false)
CFG(e1, "chain-z2", HEAP, true, CHAIN, 1, false, true, false, true, true, false, false)
#elif PMH_TU == 9
CFG(e2, "chain-z2", VECTOR, true, CHAIN, 2, false, true, false, true, true, false, false)
CFG(e3, "chain-z2", LIST, true, CHAIN, 0, true, true, true, true, true, true, false)
#elif PMH_TU == 10
CFG(e4, "chain-z2", SET, true, CHAIN, 0, true, false, false, false, true, true, false)
CFG(e5, "chain-z2", SMALL_VECTOR, true, CHAIN, 1, false, true, false, false, true, true, false)
#elif PMH_TU == 11
CFG(f0, "chain-zp", INTRUSIVE_SET, false, CHAIN, 0, false, true, false, false, true, false, false)
CFG(f1, "chain-zp", HEAP, false, CHAIN, 1, false, true, false, true, true, false, false)
#elif PMH_TU == 12
CFG(f2, "chain-zp", VECTOR, false, CHAIN, 2, false, true, false, true, true, false, false)
CFG(f3, "chain-zp", LIST, false, CHAIN, 0, true, true, true, true, true, true, false)
#elif PMH_TU == 13
CFG(f4, "chain-zp", INTRUSIVE_LIST, false, CHAIN, 0, true, false, false, false, true, true, false)
CFG(f5, "chain-zp", UNORDERED_SET, false, CHAIN, 2, false, true, false, false, true, true, false)
#elif PMH_TU == 14
CFG(v0, "ru-vine", INTRUSIVE_SET, true, RU, 0, false, true, false, false, true, false, true)
CFG(v1, "ru-vine", LIST, true, RU, 2, true, false, false, true, true, true, true)
#elif PMH_TU == 15
CFG(v2, "ru-vine", UNORDERED_SET, true, RU, 0, false, true, false, true, false, false, true)
CFG(v3, "ru-vine", SMALL_VECTOR, true, RU, 2, false, true, false, false, false, false, true)
#elif PMH_TU == 16
CFG(v4, "ru-vine", NAIVE_VECTOR, true, RU, 1, true, true, false, false, true, true, true)
CFG(v5, "ru-vine", HEAP, true, RU, 0, false, true, false, false, true, false, true)
#elif PMH_TU == 17
CFG(w0, "chain-vine", INTRUSIVE_LIST, true, CHAIN, 0, true, true, true, true, true, false, true)
CFG(w1, "chain-vine", NAIVE_VECTOR, true, CHAIN, 1, false, true, false, true, true, false, true)
#elif PMH_TU == 18
CFG(w2, "chain-vine", UNORDERED_SET, true, CHAIN, 2, false, true, false, true, true, true, true)
CFG(w3, "chain-vine", SET, true, CHAIN, 0, false, true, false, false, true, false, true)
#elif PMH_TU == 19
CFG(w4, "chain-vine", INTRUSIVE_SET, true, CHAIN, 1, false, true, false, true, false, false, true)
CFG(w5, "chain-vine", LIST, true, CHAIN, 2, false, true, false, false, false, false, true)
#elif PMH_TU == 20
CFG(v6, "ru-vine", VECTOR, true, RU, 0, false, true, false, false, true, false, true)
CFG(w6, "chain-vine", VECTOR, true, CHAIN, 0, false, true, false, true, true, false, true)
#elif PMH_TU == 21
CFG(v7, "ru-vine", INTRUSIVE_SET, true, RU, 0, false, true, false, true, true, false, true)
CFG(v8, "ru-vine", LIST, true, RU, 2, false, true, false, true, true, true, true)
#elif PMH_TU == 22
// no stored barcode, column indices visible to the caller: the comparators can translate their arguments like the zigzag module does
CFG(w7, "chain-vine", SET, true, CHAIN, 0, false, true, false, true, false, false, true)
CFG(w8, "chain-vine", NAIVE_VECTOR, true, CHAIN, 0, true, true, false, false, false, false, true)
#endif
