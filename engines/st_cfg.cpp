// One translation unit per Simplex_tree option set (-DST_CFG=<k>); configurations >= 7 are compiled without GUDHI_USE_TBB
// (the library's sequential sort path), the others with GUDHI_USE_TBB and the sort seam /verif/shim/tbb/parallel_sort.h.
#include "st_impl.h"

namespace {
struct Opt_fast_cofaces : Gudhi::Simplex_tree_options_default { static const bool link_nodes_by_label = true; };
struct Opt_stable : Gudhi::Simplex_tree_options_default { static const bool stable_simplex_handles = true; };
struct Opt_stable_fast_cofaces : Gudhi::Simplex_tree_options_default { static const bool link_nodes_by_label = true; static const bool stable_simplex_handles = true; };

#ifdef GUDHI_USE_TBB
#define TBB_PATH true
#else
#define TBB_PATH false
#endif

#if ST_CFG == 0
typedef Gudhi::Simplex_tree_options_default O; const char* NAME = "default";
#elif ST_CFG == 1
typedef Gudhi::Simplex_tree_options_full_featured O; const char* NAME = "full_featured";
#elif ST_CFG == 2
typedef Gudhi::Simplex_tree_options_fast_persistence O; const char* NAME = "fast_persistence";
#elif ST_CFG == 3
typedef Gudhi::Simplex_tree_options_minimal O; const char* NAME = "minimal";
#elif ST_CFG == 4
typedef Opt_fast_cofaces O; const char* NAME = "fast_cofaces";
#elif ST_CFG == 5
typedef Opt_stable O; const char* NAME = "stable";
#elif ST_CFG == 6
typedef Opt_stable_fast_cofaces O; const char* NAME = "stable_fast_cofaces";
#elif ST_CFG == 7
typedef Gudhi::Simplex_tree_options_default O; const char* NAME = "default_seq";
#elif ST_CFG == 8
typedef Gudhi::Simplex_tree_options_full_featured O; const char* NAME = "full_featured_seq";
#endif

void run(const sim::Plan& p, sim::Run& r, sth::Obs& o) { sth::exec_config<O>(p, r, o, NAME); }
sth::Register reg({NAME, O::contiguous_vertices, O::store_filtration, O::link_nodes_by_label, TBB_PATH, run});
}  // namespace
