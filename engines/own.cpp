// Engine `own` (C15): object lifetimes and I/O faults. The harness owns the global allocation functions (F3).
#include "own_st.h"
#include <cstdlib>
#include <new>

namespace own { long g_alloc_countdown = 0; long g_alloc_count = 0; bool g_alloc_counting = false; std::vector<Config>& configs() { static std::vector<Config> c; return c; } }

static void* verif_alloc(std::size_t n) {
  if (own::g_alloc_counting) ++own::g_alloc_count;
  if (own::g_alloc_countdown > 0 && --own::g_alloc_countdown == 0) return nullptr;
  return std::malloc(n ? n : 1);
}
// the whole family (plain, array, nothrow, sized, aligned) so that no new/delete pair is split between two allocators
void* operator new(std::size_t n) { void* q = verif_alloc(n); if (!q) throw std::bad_alloc(); return q; }
void* operator new[](std::size_t n) { void* q = verif_alloc(n); if (!q) throw std::bad_alloc(); return q; }
void* operator new(std::size_t n, const std::nothrow_t&) noexcept { return verif_alloc(n); }
void* operator new[](std::size_t n, const std::nothrow_t&) noexcept { return verif_alloc(n); }
void operator delete(void* q) noexcept { std::free(q); }
void operator delete[](void* q) noexcept { std::free(q); }
void operator delete(void* q, std::size_t) noexcept { std::free(q); }
void operator delete[](void* q, std::size_t) noexcept { std::free(q); }
void operator delete(void* q, const std::nothrow_t&) noexcept { std::free(q); }
void operator delete[](void* q, const std::nothrow_t&) noexcept { std::free(q); }
void* operator new(std::size_t n, std::align_val_t al) { void* q = nullptr; if (own::g_alloc_counting) ++own::g_alloc_count; if (own::g_alloc_countdown > 0 && --own::g_alloc_countdown == 0) throw std::bad_alloc(); if (posix_memalign(&q, std::max((std::size_t)al, sizeof(void*)), n ? n : 1)) throw std::bad_alloc(); return q; }
void* operator new[](std::size_t n, std::align_val_t al) { return operator new(n, al); }
void operator delete(void* q, std::align_val_t) noexcept { std::free(q); }
void operator delete[](void* q, std::align_val_t) noexcept { std::free(q); }
void operator delete(void* q, std::size_t, std::align_val_t) noexcept { std::free(q); }
void operator delete[](void* q, std::size_t, std::align_val_t) noexcept { std::free(q); }

namespace {
using sim::Rng;
sim::Plan generate(const std::string&, uint64_t subseed, const sim::Tier& tier) {
  Rng rng(subseed); sim::Plan p;
  bool mat = rng.chance(1, 2);
  p.set("kind", mat ? "mat" : "st");
  int nops = (int)rng.range(6, tier.thorough() ? 60 : 40);
  if (!mat) {
    bool contig = rng.chance(1, 3); int n = (int)rng.range(2, 5);
    std::vector<int> labels; long cur = contig ? 0 : rng.range(0, 30); for (int i = 0; i < n; ++i) { labels.push_back((int)cur); cur += contig ? 1 : 1 + rng.below(5); }
    p.set("labels", sim::join(labels)); p.seti("contig", contig ? 1 : 0); p.seti("dimcap", rng.range(1, 3));
    bool faults_buffer = rng.chance(2, 3), faults_stream = rng.chance(2, 3), faults_alloc = rng.chance(1, 2);  // swarm: enabled fault kinds
    for (int i = 0; i < nops; ++i) {
      long k = rng.below(20);
      if (k < 7 && rng.chance(1, 4)) p.add(3, "st_order", {(long)rng.below(3)});
      if (k < 7) p.add(0, "st_mut", {(long)rng.below(3), (long)rng.below(5), (long)rng.below(1 << n), (long)rng.below(1 << 16)});
      else if (k < 12) {  // copier: a lifetime op, then one participant is mutated or destroyed and the other audited (independence)
        static const char* ops[] = {"st_copy_ctor", "st_copy_assign", "st_move_ctor", "st_move_assign", "st_swap", "st_copy_assign"};
        long a = rng.below(3), b = rng.below(3);
        p.add(1, ops[rng.below(6)], {a, b, (long)rng.below(1 << 20)});
        if (rng.chance(1, 2)) p.add(0, "st_mut", {a, (long)rng.below(5), (long)rng.below(1 << n), (long)rng.below(1 << 16)}); else p.add(1, "st_destroy", {a});
        p.add(3, "st_audit", {b, (long)rng.below(1 << 20)});
      }
      else if (k < 13) p.add(1, "st_destroy", {(long)rng.below(3)});
      else if (k < 16) p.add(2, "st_ser", {(long)rng.below(3), faults_buffer ? (long)rng.below(4) : 0, (long)rng.below(64), (long)rng.below(1 << 20)});
      else if (k < 18) p.add(2, "st_text", {(long)rng.below(3), (long)rng.below(1 << 20), faults_stream ? (long)rng.below(10) : (long)rng.below(2)});
      else if (k < 19 && faults_alloc) p.add(2, "st_allocfail", {(long)rng.below(3), (long)rng.below(3), (long)rng.below(200), (long)rng.below(2)});
      else if (rng.chance(1, 2)) p.add(3, "st_order", {(long)rng.below(3)});
      else p.add(3, "st_audit", {(long)rng.below(3), (long)rng.below(1 << 20)});
    }
    for (int s = 0; s < 3; ++s) p.add(3, "st_audit", {(long)s, (long)rng.below(1 << 20)});
  } else {
    for (int i = 0; i < 4; ++i) p.add(0, "m_ins", {(long)rng.below(3), (long)rng.below(1 << 20), 0, (long)rng.below(3)});
    for (int i = 0; i < nops; ++i) {
      long k = rng.below(20);
      if (k < 6) p.add(0, "m_ins", {(long)rng.below(3), (long)rng.below(1 << 20), 0, (long)rng.below(3)});
      else if (k < 9) p.add(0, rng.chance(1, 2) ? "m_add" : "m_zero", {(long)rng.below(3), (long)rng.below(64), (long)rng.below(64), (long)rng.below(64)});
      else if (k < 11) p.add(0, "m_swap", {(long)rng.below(3), (long)rng.below(64), (long)rng.below(64), (long)rng.below(3)});
      else if (k < 17) {
        static const char* ops[] = {"m_copy_ctor", "m_copy_assign", "m_move_ctor", "m_move_assign", "m_swap_obj", "m_copy_assign"};
        long a = rng.below(3), b = rng.below(3);
        p.add(1, ops[rng.below(6)], {a, b});
        if (rng.chance(1, 2)) p.add(0, "m_ins", {a, (long)rng.below(1 << 20), 0, 0}); else p.add(1, "m_destroy", {a});
        p.add(3, "m_audit", {b});
      }
      else if (k < 18) p.add(1, "m_destroy", {(long)rng.below(3)});
      else p.add(3, "m_audit", {(long)rng.below(3)});
    }
    for (int s = 0; s < 3; ++s) p.add(3, "m_audit", {(long)s});
  }
  return p;
}
void execute(const sim::Plan& p, sim::Run& r) {
  std::string kind = p.get("kind"), only = p.get("only_config"); bool contig = p.geti("contig") != 0;
  for (auto& c : own::configs()) {
    if (c.kind != kind) continue;
    if (!only.empty() && only != c.name) continue;
    if (kind == "st" && (c.name.find("fast_persistence") != std::string::npos) != contig) continue;  // contiguous_vertices needs the labels 0..n-1
    own::Obs o; r.log(c.name);
    try { c.exec(p, r, o); } catch (const sim::Failure&) { throw; } catch (const std::exception& ex) { r.fail("exception", "[" + c.name + "] unexpected exception: " + ex.what()); }
  }
}
}  // namespace
sim::Engine sim::make_engine() {
  sim::Engine e; e.name = "own"; e.properties = {"C15"}; e.generate = generate; e.execute = execute;
  for (auto& c : own::configs()) e.configurations.push_back(c.name);
  return e;
}
