// Engine `st_hist` (C01, C03, C04): plan generators and the dispatcher that runs one plan on every Simplex_tree option set
// and compares the cross-configuration observations (e.g. the filtration order) between them.
#include "st_common.h"
#include <map>

namespace sth { std::vector<Config>& configs() { static std::vector<Config> c; return c; } }

namespace {

using sim::Rng;

void labels_for(sim::Plan& p, Rng& rng, int n, bool contig) {
  std::vector<int> labels;
  if (contig) for (int i = 0; i < n; ++i) labels.push_back(i);
  else { long cur = rng.below(3) == 0 ? 0 : rng.range(1, 50); for (int i = 0; i < n; ++i) { labels.push_back((int)cur); cur += 1 + rng.below(rng.chance(1, 2) ? 1 : 9); } }
  p.set("labels", sim::join(labels));
  p.seti("contig", contig ? 1 : 0);
}

// C01 / C03: simulated clients builder / bulk / eraser / scrambler / auditor, each with its own script; the interleaving is seeded
sim::Plan gen_history(const std::string& prop, uint64_t subseed, const sim::Tier& tier) {
  Rng rng(subseed);
  sim::Plan p;
  p.set("mode", "history");
  bool contig = rng.chance(1, 4);
  int n = (int)rng.range(2, tier.thorough() ? 7 : 6);
  labels_for(p, rng, n, contig);
  p.seti("dimcap", rng.range(1, 4));
  p.seti("sort_seeds", tier.thorough() ? 6 : 3);
  const bool c03 = prop == "C03";
  int nops = (int)rng.range(3, tier.thorough() ? 60 : 40);
  // swarm: weights of the clients
  int w_build = (int)rng.range(3, 10), w_bulk = rng.chance(1, 2) ? (int)rng.range(1, 3) : 0, w_erase = rng.chance(4, 5) ? (int)rng.range(1, 6) : 0,
      w_scr = c03 ? (int)rng.range(2, 6) : (rng.chance(1, 3) ? 1 : 0), w_ext = c03 ? (int)rng.range(0, 2) : (rng.chance(1, 6) ? 1 : 0);
  int audit_every = (int)rng.range(1, 5);
  bool lazy_dim = rng.chance(1, 3);   // auditors that avoid dimension() for long stretches keep the lazy flag set
  bool use_inf = rng.chance(1, 4);
  int total = w_build + w_bulk + w_erase + w_scr + w_ext;
  for (int i = 0; i < nops; ++i) {
    long k = rng.below(total);
    if (k < w_build) {
      if (rng.chance(2, 3)) p.add(0, "ins_faces", {(long)rng.below(1 << n), use_inf && rng.chance(1, 8) ? 13 : (long)rng.below(9), (long)rng.below(1 << 16)});
      else p.add(0, "ins_one", {(long)rng.below(4096), (long)rng.below(4), (long)rng.below(1 << 16)});
    } else if (k < w_build + w_bulk) {
      long z = rng.below(10);
      if (z < 3) p.add(1, "batch", {(long)rng.below(1 << n), (long)rng.below(6), (long)rng.below(1 << 16)});
      else if (z < 5) { p.add(1, "clear"); if (rng.chance(2, 3)) { p.add(1, "graph", {(long)rng.below(1 << 30)}); if (rng.chance(2, 3)) p.add(1, "expand", {(long)rng.below(5)}); } }
      else if (z < 7) p.add(1, "graph", {(long)rng.below(1 << 30)});
      else p.add(1, "expand", {(long)rng.below(5)});
    } else if (k < w_build + w_bulk + w_erase) {
      long z = rng.below(10);
      if (z < 5) { p.add(2, "rem_max", {(long)rng.below(4096)}); if (rng.chance(1, 3)) for (int j = 0; j < 3; ++j) p.add(2, "rem_max", {(long)rng.below(4096)}); }
      else if (z < 8) p.add(2, "prune_filt", {use_inf && rng.chance(1, 6) ? 13 : (long)rng.below(10)});
      else p.add(2, "prune_dim", {(long)rng.below(8)});
    } else if (k < w_build + w_bulk + w_erase + w_scr) {
      if (rng.chance(3, 4)) p.add(3, "scramble", {(long)rng.below(1 << 30), (long)rng.below(4)}); else p.add(3, "reset_filt", {(long)rng.below(13), (long)rng.below(4)});
    } else p.add(3, "extend");
    if (c03 && rng.chance(1, 10)) p.add(4, "cubical", {(long)rng.below(1 << 30)});
    if (rng.below(audit_every) == 0) {
      long flags = (lazy_dim ? (rng.chance(1, 6) ? 1 : 0) : 1) | ((c03 && rng.chance(2, 3)) ? 2 : 0) | (rng.chance(1, 3) ? 4 : 0);
      p.add(4, "audit", {(long)rng.below(1 << 30), flags});
    }
  }
  p.add(4, "audit", {(long)rng.below(1 << 30), c03 ? 7 : 5});  // the filtration order is C03's subject
  return p;
}

// C04: an edge source delivers the vertices and edges of a seeded weighted graph in a seeded order (incremental route with a
// per-step invariant); `finish` delivers the rest and runs the one-shot routes on adversarially ordered graphs.
sim::Plan gen_flag(uint64_t subseed, const sim::Tier& tier) {
  Rng rng(subseed);
  sim::Plan p;
  p.set("mode", "flag");
  bool contig = rng.chance(1, 3);
  int n = (int)rng.range(2, tier.thorough() ? 8 : 7);
  labels_for(p, rng, n, contig);
  p.seti("graph_seed", rng.below(1 << 30));
  p.seti("density", rng.range(1, 6));
  p.seti("flag_dim", rng.range(-1, 4));
  p.seti("block_rate", rng.range(0, 6));
  p.seti("reentrant", rng.chance(2, 3) ? 1 : 0);
  p.seti("rips", 1);
  int style = (int)rng.below(3);  // 0: in filtration order, 1: vertices first then edges in arbitrary order, 2: mixed
  int nd = (int)rng.range(0, n + n * (n - 1) / 2);
  if (style == 0) for (int i = 0; i < nd; ++i) p.add(0, "deliver_next");
  else if (style == 1) { for (int i = 0; i < n; ++i) p.add(0, "deliver_v", {(long)rng.below(64)}); for (int i = 0; i < nd; ++i) p.add(0, "deliver_e", {(long)rng.below(64)}); }
  else for (int i = 0; i < nd; ++i) { long z = rng.below(3); if (z == 0) p.add(0, "deliver_next"); else if (z == 1) p.add(0, "deliver_v", {(long)rng.below(64)}); else p.add(0, "deliver_e", {(long)rng.below(64)}); }
  p.add(1, "finish", {(long)rng.below(6), (long)rng.below(1 << 30)});
  return p;
}

sim::Plan generate(const std::string& prop, uint64_t subseed, const sim::Tier& tier) {
  if (prop == "C04") return gen_flag(subseed, tier);
  return gen_history(prop, subseed, tier);
}

void execute(const sim::Plan& p, sim::Run& r) {
  const bool contig = p.geti("contig") != 0;
  std::string only = p.get("only_config");
  std::vector<std::pair<std::string, sth::Obs>> all;
  for (auto& c : sth::configs()) {
    if (c.contiguous && !contig) continue;  // contiguous_vertices requires the labels 0..n-1 at all times
    if (!only.empty() && only != c.name) continue;
    sth::Obs o;
    r.log(std::string(c.name));
    try { c.exec(p, r, o); } catch (const sim::Failure&) { throw; } catch (const std::exception& ex) { r.fail("exception", std::string("[") + c.name + "] unexpected exception: " + ex.what()); }
    all.emplace_back(c.name, o);
  }
  // identical under every storage option set and build: observations with the same tag must agree
  // identical under every storage option set and build: observations with the same tag must agree wherever both are present
  std::map<std::string, std::pair<std::string, std::string>> first;  // tag -> (config, value)
  for (auto& c : all) for (auto& it : c.second.items) {
    auto ins = first.emplace(it.first, std::make_pair(c.first, it.second));
    if (!ins.second && ins.first->second.second != it.second) { r.opkind = "audit"; r.fail("order-det", "configurations " + ins.first->second.first + " and " + c.first + " disagree on " + it.first + ": " + ins.first->second.second + " vs " + it.second); }
  }
}

}  // namespace

sim::Engine sim::make_engine() {
  sim::Engine e; e.name = "st_hist"; e.properties = {"C01", "C03", "C04"}; e.generate = generate; e.execute = execute;
  for (auto& c : sth::configs()) e.configurations.push_back(c.name);
  return e;
}
