// own engine (C15), Simplex_tree part: object-lifetime histories (copy / move / assign / swap / destroy / mutate) on an arena of
// slots, serialisation with buffer faults (F1), text round trip through a chunked stream (F2), allocation faults during copies (F3).
#pragma once
#include "st_impl.h"
#include <sstream>
#include <iomanip>
#include <memory>
#include <new>

namespace own {

using model::Mask; using model::Complex;

// F3: the harness owns the global allocation functions (own.cpp); a positive countdown makes the k-th allocation fail
extern long g_alloc_countdown; extern long g_alloc_count; extern bool g_alloc_counting;

// F2: a stream buffer that exposes the text in seeded chunks, optionally cut off
struct Chunked_streambuf : std::streambuf {
  std::string data; size_t pos = 0, limit; sim::Rng rng; int maxchunk; long refills = 0;
  Chunked_streambuf(const std::string& d, uint64_t seed, int maxchunk_, size_t cut) : data(d), limit(std::min(cut, d.size())), rng(seed | 1), maxchunk(maxchunk_) { setg(nullptr, nullptr, nullptr); }
  int_type underflow() override {
    if (pos >= limit) return traits_type::eof();
    size_t n = 1 + (size_t)rng.below(maxchunk); n = std::min(n, limit - pos);
    char* b = &data[pos]; setg(b, b, b + n); pos += n; ++refills;
    return traits_type::to_int_type(*b);
  }
};

struct Obs { std::vector<uint64_t> d; };
typedef void (*ExecFn)(const sim::Plan&, sim::Run&, Obs&);
struct Config { std::string kind; std::string name; ExecFn exec; };
std::vector<Config>& configs();
struct Register { Register(const Config& c) { configs().push_back(c); } };

template <class Opt>
struct St_exec {
  typedef Gudhi::Simplex_tree<Opt> ST; typedef typename ST::Filtration_value FV; typedef typename ST::Vertex_handle VH;
  static constexpr bool HAS_F = Opt::store_filtration;
  static constexpr int K = 3;
  struct Slot { std::unique_ptr<ST> st; Complex m; bool dirty = false; /* modified by the caller since the filtration cache was last built or reset */ };
  const sim::Plan& p; sim::Run& r; std::string cfg; sth::Obs dummy_obs; sth::Exec<Opt> helper;
  Slot slot[K];

  St_exec(const sim::Plan& p_, sim::Run& r_, const std::string& c) : p(p_), r(r_), cfg(c), helper(p_, r_, dummy_obs, c.c_str()) {
    for (auto& s : slot) { s.st.reset(new ST()); s.m = Complex(helper.m.labels); }
  }
  [[noreturn]] void fail(const std::string& o, const std::string& d) { r.fail(o, "[" + cfg + "] " + d); }
  void audit(int s, uint64_t seed, const char* what) { helper.audit_tree(*slot[s].st, slot[s].m, seed, true, what); r.audited = true; }
  void mutate(int s, long kind, long a, long b) {
    ST& st = *slot[s].st; Complex& m = slot[s].m;
    slot[s].dirty = true;  // whatever happens below, the caller treats the tree as modified
    const bool contig = helper.contig;
    if (contig && m.num_vertices() != (size_t)m.n) { std::vector<VH> vs; for (int i = 0; i < m.n; ++i) vs.push_back(helper.lab[i]); st.insert_batch_vertices(vs, (FV)0); for (int i = 0; i < m.n; ++i) if (!m.has(1u << i)) m.insert_one(1u << i, 0); }
    switch (kind % 5) {
      case 0: case 1: { Mask x = helper.trim((Mask)a); if (!x) return; double f = b % 23 == 0 ? helper.val(13) : helper.val(b % 9); st.insert_simplex_and_subfaces(helper.word_perm(x, (uint64_t)b, false), (FV)f); m.insert_with_faces(x, f); break; }
      case 2: { auto mx = m.maximal_simplices(); if (mx.empty()) return; Mask x = mx[a % mx.size()]; if (contig && model::popcount(x) == 1 && x != (1u << (m.num_vertices() - 1))) return; st.remove_maximal_simplex(st.find(helper.word(x))); m.in[x] = 0; break; }
      case 3: { double t = helper.val(a % 9); st.prune_above_filtration((FV)t); m.prune_above_value(t); break; }
      case 4: { if (a % 3 == 0) { st.clear(); m.clear(); } else { int d = (int)(a % 5); st.prune_above_dimension(d); m.prune_above_dim(d); } break; }
    }
    slot[s].dirty = true; r.mutated = true;
  }

  // the filtration order of a slot: the caller clears the cache after its own modifications (documented duty); copies, assignments and
  // moves are the library's operations and must leave a consistent cache themselves
  void order(int a, const char* what) {
    if constexpr (HAS_F) {
      ST& st = *slot[a].st; if (slot[a].dirty) { st.clear_filtration(); slot[a].dirty = false; }
      std::vector<Mask> seq; for (auto sh : st.filtration_simplex_range()) seq.push_back(helper.mask_of(st, sh));
      helper.check_order_valid(slot[a].m, seq, false, what);
      r.count("probe.order_after_lifetime_op");
    }
  }

  void serialisation(int a, long fault, long k, uint64_t seed) {
    ST& st = *slot[a].st; const Complex& m = slot[a].m;
    const size_t sz = st.get_serialization_size();
    // exactly sized heap buffer: the sanitizer red zones make any write or read past either end visible
    std::unique_ptr<char[]> buf(new char[sz ? sz : 1]);
    st.serialize(buf.get(), sz);   // documented: throws if the serialisation does not fill exactly sz bytes
    if (fault == 0) {
      ST back; back.deserialize(buf.get(), sz);
      if (!(back == st)) fail("ser-roundtrip", "deserialize(serialize(tree)) is not equal to the tree");
      helper.audit_tree(back, m, seed, true, "deserialised tree");
      // serialising again gives the same bytes
      std::unique_ptr<char[]> buf2(new char[sz ? sz : 1]);
      if (back.get_serialization_size() != sz) fail("ser-size", "the deserialised tree announces another size");
      back.serialize(buf2.get(), sz);
      if (memcmp(buf.get(), buf2.get(), sz) != 0) fail("ser-roundtrip", "the deserialised tree serialises to different bytes");
      r.count("probe.serialise_roundtrip"); r.audited = true;
      return;
    }
    // wrong length: must be refused with std::invalid_argument, without reading past the end
    size_t n = sz;
    if (fault == 1 && (k & 16)) { if (sz < 2) { r.skipped(); return; } n = 1 + (size_t)(seed % (sz - 1)); r.count("probe.deserialize_any_prefix"); }                  // truncated anywhere: every prefix of the buffer, also inside the member list of a sibling group
    else if (fault == 1) { size_t cut = 1 + (size_t)(k % 12); if (cut >= sz) cut = sz > 1 ? sz - 1 : 0; if (cut == 0) { r.skipped(); return; } n = sz - cut; }          // truncated near the end
    else if (fault == 2) n = sz + 1 + (size_t)(k % 12);                                                                                             // extended
    else { static const size_t special[] = {sizeof(VH), sizeof(FV), sizeof(VH) + sizeof(FV), 2 * sizeof(VH)}; size_t cut = special[k % 4]; if (cut >= sz) { r.skipped(); return; } n = sz - cut; }  // cut inside a field
    std::unique_ptr<char[]> fb(new char[n]);
    memcpy(fb.get(), buf.get(), std::min(n, sz)); for (size_t i = sz; i < n; ++i) fb[i] = 0;
    if (n < sz) r.count("probe.deserialize_truncated");
    r.count(n < sz ? "fault.buffer_truncated" : "fault.buffer_extended");
    ST target; bool refused = false;
    try { target.deserialize(fb.get(), n); } catch (const std::invalid_argument&) { refused = true; }
    if (!refused) fail("ser-contract", "a buffer of " + std::to_string(n) + " bytes for a tree announcing " + std::to_string(sz) + " bytes was not refused with std::invalid_argument");
    // nothing is promised about `target` except that it can be destroyed
  }

  void text_roundtrip(int a, uint64_t seed, long mode) {
    ST& st = *slot[a].st; const Complex& m = slot[a].m;
    if (!HAS_F) { r.skipped(); return; }
    bool has_inf = false; for (Mask x : m.simplices()) if (m.val[x] == std::numeric_limits<double>::infinity()) has_inf = true;
    if (has_inf) r.count("probe.text_with_infinite_value");
    st.clear_filtration(); slot[a].dirty = false;  // caller duty after modifications (the printer walks the filtration order)
    std::ostringstream os; if (mode % 2) os << std::setprecision(std::numeric_limits<double>::max_digits10);
    os << st;
    std::string text = os.str();
    bool cut = mode % 5 == 4 && text.size() > 2;
    sim::Rng g(seed | 1);
    size_t limit = cut ? (size_t)g.below((long)text.size()) : text.size();
    Chunked_streambuf sb(text, seed, 1 + (int)(seed % 64), limit); std::istream is(&sb);
    ST back; is >> back;
    r.count("fault.stream_chunked_reads", sb.refills);
    if (cut) { r.count("fault.stream_cut"); return; }  // unspecified result: memory safety only
    if (!(back == st)) fail("text-roundtrip", "re-reading the text output (chunk seed " + std::to_string(seed) + ") does not give an equal tree");
    helper.audit_tree(back, m, seed, true, "tree re-read from text");
    r.count("probe.text_roundtrip"); r.audited = true;
  }

  void alloc_fault(int a, int b, long k, bool assign) {
    ST& src = *slot[a].st;
    // count the allocations of an undisturbed copy, then fail the (k mod count)-th one
    g_alloc_count = 0; g_alloc_counting = true; { ST probe(src); } g_alloc_counting = false;
    long total = g_alloc_count; if (total == 0) { r.skipped(); return; }
    long at = 1 + k % total;
    bool thrown = false;
    if (!assign) {
      try { g_alloc_countdown = at; ST c(src); g_alloc_countdown = 0; } catch (const std::bad_alloc&) { g_alloc_countdown = 0; thrown = true; }
    } else {
      if (a == b) { r.skipped(); return; }
      try { g_alloc_countdown = at; *slot[b].st = src; g_alloc_countdown = 0; } catch (const std::bad_alloc&) { g_alloc_countdown = 0; thrown = true; }
      if (thrown) { slot[b].st.reset(new ST()); slot[b].m.clear(); slot[b].dirty = false; }  // nothing is promised about a half-assigned target beyond being destructible
      else { slot[b].m = slot[a].m; slot[b].dirty = false; }
    }
    if (thrown) r.count("fault.alloc_failed_in_copy"); else r.count("fault.alloc_not_reached");
    // the source is untouched
    audit(a, (uint64_t)k + 7, "source after a failed copy");
  }

  void run(Obs& obs) {
    for (size_t i = 0; i < p.ops.size(); ++i) {
      const sim::Op& op = p.ops[i]; r.begin_op((int)i, op);
      const std::string& nm = op.name;
      int a = (int)(op.arg(0) % K), b = (int)(op.arg(1) % K);
      if (nm == "st_mut") mutate(a, op.arg(1), op.arg(2), op.arg(3));
      else if (nm == "st_copy_ctor") { slot[b].st.reset(a == b ? new ST(*slot[a].st) : new ST(*slot[a].st)); if (a != b) { slot[b].m = slot[a].m; slot[b].dirty = false; } audit(b, op.arg(2), "copy-constructed tree"); audit(a, op.arg(2) + 1, "source of a copy"); order(b, "filtration order of a copy-constructed tree"); order(a, "filtration order of the source of a copy"); r.mutated = true; }
      else if (nm == "st_copy_assign") { *slot[b].st = *slot[a].st; slot[b].m = slot[a].m; if (a != b) slot[b].dirty = false; if (a == b) r.count("probe.self_assignment"); audit(b, op.arg(2), "copy-assigned tree"); audit(a, op.arg(2) + 1, "source of a copy assignment"); order(b, "filtration order of a copy-assigned tree"); order(a, "filtration order of the source of a copy assignment"); r.mutated = true; }
      else if (nm == "st_move_ctor") { if (a == b) { r.skipped(); continue; } slot[b].st.reset(new ST(std::move(*slot[a].st))); slot[b].m = slot[a].m; slot[a].m.clear(); slot[b].dirty = slot[a].dirty; slot[a].dirty = false; audit(b, op.arg(2), "move-constructed tree"); audit(a, op.arg(2) + 1, "moved-from tree"); order(b, "filtration order of a move-constructed tree"); order(a, "filtration order of a moved-from tree"); r.mutated = true; }
      else if (nm == "st_move_assign") { if (a == b) { r.skipped(); continue; } *slot[b].st = std::move(*slot[a].st); slot[b].m = slot[a].m; slot[a].m.clear(); slot[b].dirty = slot[a].dirty; slot[a].dirty = false; audit(b, op.arg(2), "move-assigned tree"); audit(a, op.arg(2) + 1, "moved-from tree"); order(b, "filtration order of a move-assigned tree"); order(a, "filtration order of a moved-from tree"); r.mutated = true; }
      else if (nm == "st_swap") { if (a == b) { r.skipped(); continue; } std::swap(*slot[a].st, *slot[b].st); std::swap(slot[a].m, slot[b].m); std::swap(slot[a].dirty, slot[b].dirty); audit(a, op.arg(2), "swapped tree"); audit(b, op.arg(2) + 1, "swapped tree"); r.mutated = true; }
      else if (nm == "st_destroy") { slot[a].st.reset(new ST()); slot[a].m.clear(); slot[a].dirty = false; r.mutated = true; }
      else if (nm == "st_order") order(a, "filtration order");
      else if (nm == "st_audit") audit(a, op.arg(1), "tree");
      else if (nm == "st_ser") serialisation(a, op.arg(1) % 4, op.arg(2), (uint64_t)op.arg(3));
      else if (nm == "st_text") text_roundtrip(a, (uint64_t)op.arg(1), op.arg(2));
      else if (nm == "st_allocfail") alloc_fault(a, b, op.arg(2), op.arg(3) % 2);
      else { r.skipped(); continue; }
      uint64_t h = 7; for (auto& s : slot) h = sim::mix(h, s.m.hash(HAS_F)); r.state(h);
    }
    for (auto& s : slot) obs.d.push_back(s.m.hash(HAS_F));
  }
};

template <class Opt> void exec_st(const sim::Plan& p, sim::Run& r, Obs& o, const std::string& name) { St_exec<Opt> e(p, r, name); e.run(o); }

}  // namespace own
