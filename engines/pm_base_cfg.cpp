// One translation unit per (option family, group of three column types): -DPMB_FAMILY=<1..9> -DPMB_GROUP=<0..2>
#include "pm_base_impl.h"
using namespace pmb;

#if PMB_FAMILY == 1
#define FAM "z5/norows/vector/noswaps/plain"
#define ARGS false, false, true, false, false, false, false
#define HEAP_OK 1
#elif PMB_FAMILY == 2
#define FAM "z2/norows/vector/noswaps/plain"
#define ARGS true, false, true, false, false, false, false
#define HEAP_OK 1
#elif PMB_FAMILY == 3
#define FAM "z5/introws/vector/swaps/plain"
#define ARGS false, true, true, false, false, true, false
#define HEAP_OK 0
#elif PMB_FAMILY == 4
#define FAM "z2/setrows-removable/map/swaps/plain"
#define ARGS true, true, false, true, true, true, false
#define HEAP_OK 0
#elif PMB_FAMILY == 5
#define FAM "z5/norows/vector/noswaps/compressed"
#define ARGS false, false, true, false, false, false, true
#define HEAP_OK 0
#elif PMB_FAMILY == 6
#define FAM "z2/introws-removable/vector/noswaps/compressed"
#define ARGS true, true, true, true, false, false, true
#define HEAP_OK 0
#elif PMB_FAMILY == 7
#define FAM "z5/norows/map/swaps/plain"
#define ARGS false, false, true, false, true, true, false
#define HEAP_OK 1
#elif PMB_FAMILY == 8
#define FAM "z2/setrows/vector/noswaps/plain"
#define ARGS true, true, false, false, false, false, false
#define HEAP_OK 0
#elif PMB_FAMILY == 9
#define FAM "z5/introws-removable/map/noswaps/plain"
#define ARGS false, true, true, true, true, false, false
#define HEAP_OK 0
#elif PMB_FAMILY == 10
#define FAM "z5/setrows/vector/noswaps/plain"
#define ARGS false, true, false, false, false, false, false
#define HEAP_OK 0
#elif PMB_FAMILY == 11
#define FAM "z5/setrows-removable/map/swaps/plain"
#define ARGS false, true, false, true, true, true, false
#define HEAP_OK 0
#endif

#define REG(CT) namespace { void run_##CT(const sim::Plan& p, sim::Run& r, Obs& o) { exec_config<Opt<Column_types::CT, ARGS>>(p, r, o, std::string(FAM) + "/" #CT); } Register reg_##CT({FAM, std::string(FAM) + "/" #CT, run_##CT}); }

#if PMB_GROUP == 0
REG(LIST) REG(SET)
#if HEAP_OK
REG(HEAP)
#endif
#elif PMB_GROUP == 1
REG(VECTOR) REG(NAIVE_VECTOR) REG(SMALL_VECTOR)
#else
REG(UNORDERED_SET) REG(INTRUSIVE_LIST) REG(INTRUSIVE_SET)
#endif
