// own engine (C15), Matrix part: copy / move / assign / swap / destroy histories on an arena of matrices. The oracle is value
// semantics against a replay: every slot remembers the history of operations that produced its value; after each lifetime operation
// the observable digest of every participant must equal the digest of a matrix rebuilt by replaying that history, and keep doing so
// while the other participant is mutated or destroyed (independence; dangling pointers into the other object show under ASan).
#pragma once
#include "own_st.h"
#include "../models/filtration.h"
#include <gudhi/Matrix.h>
#include <gudhi/persistence_matrix_options.h>

namespace own {

using namespace Gudhi::persistence_matrix;

template <Column_types ct, bool z2, int fam /*0 base, 1 boundary-type, 2 chain*/, bool rows, bool intr, bool remrows, bool mapc, bool swaps, bool comp, bool barcode, bool rep, bool vine, int idx = 0 /*0 container, 1 position, 2 identifier*/>
struct MOpt : Default_options<ct, z2> {
  static const Column_indexation_types column_indexation_type = idx == 0 ? Column_indexation_types::CONTAINER : (idx == 1 ? Column_indexation_types::POSITION : Column_indexation_types::IDENTIFIER);
  static const int indexing = idx;
  static const bool has_row_access = rows; static const bool has_intrusive_rows = intr; static const bool has_removable_rows = remrows;
  static const bool has_map_column_container = mapc; static const bool has_column_and_row_swaps = swaps; static const bool has_column_compression = comp;
  static const bool has_removable_columns = true; static const bool is_of_boundary_type = fam != 2;
  static const bool has_column_pairings = barcode; static const bool can_retrieve_representative_cycles = rep; static const bool has_vine_update = vine;
  static const int family = fam;
};

template <class Opt>
struct Mat_exec {
  typedef Matrix<Opt> M;
  static constexpr int FAM = Opt::family; static constexpr bool Z2 = Opt::is_z2;
  static constexpr int K = 3, NR = 5; static constexpr unsigned P = Z2 ? 2 : 5;
  // the barcode is a std::list addressed through a map of list iterators (removable columns, chain or vine flavour)
  static constexpr bool LIST_BARCODE = Opt::has_column_pairings && Opt::has_removable_columns && (FAM == 2 || Opt::has_vine_update);
  struct State { unsigned ncols = 0; model::Filtration F; std::vector<sim::Op> hist; };
  struct Slot { std::unique_ptr<M> m; State s; };
  const sim::Plan& p; sim::Run& r; std::string cfg; model::Pool pool; Slot slot[K];

  Mat_exec(const sim::Plan& p_, sim::Run& r_, const std::string& c) : p(p_), r(r_), cfg(c), pool(4, 2) { for (auto& s : slot) { s.m.reset(fresh()); s.s.F.p = P; } }
  static M* fresh() { return new M(16, P); }
  [[noreturn]] void fail(const std::string& o, const std::string& d) { r.fail(o, "[" + cfg + "] " + d); }

  // one deterministic step of a matrix history; returns false if the op is not enabled in this state (then it is not recorded)
  bool apply(M& m, State& s, const sim::Op& op) {
    if constexpr (FAM == 0) {
      if (op.name == "m_ins") {
        sim::Rng g((uint64_t)op.arg(1) | 1); int dens = (int)g.below(4);
        if constexpr (Z2) { std::vector<unsigned> e; for (int i = 0; i < NR; ++i) if (g.below(4) < dens) e.push_back((unsigned)i); m.insert_column(e); }
        else { std::vector<std::pair<unsigned, unsigned>> e; for (int i = 0; i < NR; ++i) if (g.below(4) < dens) e.push_back({(unsigned)i, 1u + (unsigned)g.below(P - 1)}); m.insert_column(e); }
        ++s.ncols; return true;
      }
      if (s.ncols < 2) return false;
      unsigned a = (unsigned)(op.arg(1) % s.ncols), b = (unsigned)(op.arg(2) % s.ncols);
      if (op.name == "m_add") { m.add_to(a, b); return true; }  // also a column onto itself
      if (op.name == "m_zero") { if constexpr (!Opt::has_column_compression) { unsigned row = (unsigned)(op.arg(3) % NR); if (Opt::has_column_and_row_swaps && !row_known(m, s, row)) return false; m.zero_entry(b, row); return true; } else return false; }
      if (op.name == "m_swap") { if constexpr (Opt::has_column_and_row_swaps && !Opt::has_column_compression) { unsigned r1 = (unsigned)(op.arg(1) % NR), r2 = (unsigned)(op.arg(2) % NR); if (!row_known(m, s, r1) || !row_known(m, s, r2)) return false; m.swap_rows(r1, r2); return true; } else return false; }
      return false;
    } else {
      model::Filtration& F = s.F;
      if (op.name == "m_ins") {
        std::vector<int> can; for (size_t c = 0; c < pool.cells.size(); ++c) if (!F.has_pool((int)c)) { bool ok = true; for (auto& f : pool.cells[c].bd) if (!F.has_pool(f.first)) ok = false; if (ok) can.push_back((int)c); }
        if (can.empty() || F.size() >= 10) return false;
        int c = can[op.arg(1) % can.size()];
        // chains: identifiers follow the cells; boundary-type matrices: the model keeps identifier == position (relabelled after swaps),
        // which is also the row identifier by which the API designates a face
        constexpr bool OWNID = FAM == 2 || Opt::indexing == 2;  // identifier-indexed boundary-type matrices get identifiers with gaps (no swaps are recorded for them)
        int id = 0; if (OWNID) { for (auto& x : F.cells) id = std::max(id, x.id + 1); if (FAM != 2) id += (int)((op.arg(1) >> 8) % 3); } else id = F.size();
        model::Filt_cell fc; fc.pool = c; fc.id = id; fc.dim = pool.cells[c].dim;
        for (auto& f : pool.cells[c].bd) fc.bd.push_back({F.id_of_pool(f.first), (unsigned)(f.second > 0 ? 1 : P - 1)});
        std::sort(fc.bd.begin(), fc.bd.end());
        if constexpr (Z2) { std::vector<unsigned> bd; for (auto& f : fc.bd) bd.push_back((unsigned)f.first); if (OWNID) m.insert_boundary((unsigned)id, bd, fc.dim); else m.insert_boundary(bd, fc.dim); }
        else { std::vector<std::pair<unsigned, unsigned>> bd; for (auto& f : fc.bd) bd.push_back({(unsigned)f.first, f.second}); if (OWNID) m.insert_boundary((unsigned)id, bd, fc.dim); else m.insert_boundary(bd, fc.dim); }
        F.cells.push_back(fc); ++s.ncols; return true;
      }
      if (op.name == "m_swap") {
        if constexpr (Opt::has_vine_update && FAM != 2 && Opt::indexing != 2) {  // chains: an insertion after a vine swap is C06-KF6's subject, kept out of the lifetime histories
          // vine swaps only in the pristine order of identifiers are recorded for boundary-type matrices (see C06-KF2): positions == ids is kept by relabelling
          std::vector<int> adm; for (int i = 0; i + 1 < F.size(); ++i) if (!F.is_face(i, i + 1)) adm.push_back(i);
          if (adm.empty()) return false; int i = adm[op.arg(1) % adm.size()];
          if constexpr (FAM == 2) { unsigned ci = m.get_column_with_pivot((unsigned)F.cells[i].id), cj = m.get_column_with_pivot((unsigned)F.cells[i + 1].id); m.vine_swap(ci, cj); std::swap(F.cells[i], F.cells[i + 1]); }
          else { m.vine_swap((unsigned)i); std::swap(F.cells[i], F.cells[i + 1]); relabel(F); }
          return true;
        } else return false;
      }
      return false;
    }
  }
  // boundary-type matrices: row identifiers stay with the positions, so after a swap the cell at position k is designated by k again
  static void relabel(model::Filtration& F) {
    std::map<int, int> newid; for (int k = 0; k < F.size(); ++k) newid[F.cells[k].id] = k;
    for (auto& c : F.cells) { c.id = newid[c.id]; for (auto& f : c.bd) f.first = newid[f.first]; std::sort(c.bd.begin(), c.bd.end()); }
  }
  // rows the matrix knows about: those used by inserted columns (map container: exactly those; vector: everything up to the largest)
  std::set<int> rows_inserted(State& s) {
    std::set<int> rows;
    for (auto& op : s.hist) if (op.name == "m_ins") { sim::Rng g((uint64_t)op.arg(1) | 1); int dens = (int)g.below(4); for (int i = 0; i < NR; ++i) { if (g.below(4) < dens) { rows.insert(i); if (!Z2) g.below(P - 1); } } }
    return rows;
  }
  int max_row_inserted(State& s) { auto rs = rows_inserted(s); return rs.empty() ? -1 : *rs.rbegin(); }
  bool row_known(M&, State& s, unsigned row) {
    if (row >= (unsigned)NR || s.ncols == 0) return false;
    if constexpr (Opt::has_map_column_container) return rows_inserted(s).count((int)row) > 0; else return max_row_inserted(s) >= (int)row;
  }

  uint64_t digest(M& m, State& s) {
    uint64_t h = 1469598103934665603ull; auto add = [&](uint64_t x) { h ^= x + 0x9e37; h *= 1099511628211ull; };
    add(m.get_number_of_columns());
    if constexpr (FAM == 0) {
      for (unsigned c = 0; c < s.ncols; ++c) { auto v = m.get_column(c).get_content(NR); for (auto x : v) add((uint64_t)x); add(m.is_zero_column(c)); }
      if constexpr (Opt::has_row_access && !Opt::has_column_compression) { int mr = max_row_inserted(s); for (int k = 0; k <= mr; ++k) { std::vector<std::pair<unsigned, unsigned>> e; try { for (const auto& en : m.get_row((unsigned)k)) { unsigned v; if constexpr (Z2) v = 1; else v = (unsigned)en.get_element(); e.push_back({en.get_column_index(), v}); } } catch (const std::out_of_range&) {} std::sort(e.begin(), e.end()); for (auto& x : e) { add(x.first); add(x.second); } } }
    } else {
      const int n = s.F.size(); unsigned maxrow = 0; for (auto& c : s.F.cells) maxrow = std::max(maxrow, (unsigned)c.id);
      for (int k = 0; k < n; ++k) { unsigned ci; if constexpr (FAM == 2) ci = m.get_column_with_pivot((unsigned)s.F.cells[k].id); else if constexpr (Opt::indexing == 2) ci = (unsigned)s.F.cells[k].id; else ci = (unsigned)k; auto v = m.get_column(ci).get_content((int)maxrow + 1); for (auto x : v) add((uint64_t)x); add((uint64_t)m.get_column_dimension(ci)); }
      // R-only boundary matrices compute the barcode once, when complete (documented): not read inside lifetime histories
      if constexpr (Opt::has_column_pairings && (FAM == 2 || Opt::has_vine_update || Opt::can_retrieve_representative_cycles)) { std::vector<std::tuple<int, unsigned, unsigned>> bars; for (const auto& b : m.get_current_barcode()) bars.emplace_back((int)b.dim, (unsigned)b.birth, (unsigned)b.death); std::sort(bars.begin(), bars.end()); for (auto& b : bars) { add((uint64_t)std::get<0>(b)); add(std::get<1>(b)); add(std::get<2>(b)); }
        // and against the independent reduction
        auto exp = s.F.barcode(); if (exp.size() != bars.size()) fail("copy-eq", "barcode of a matrix has " + std::to_string(bars.size()) + " bars, model " + std::to_string(exp.size())); }
    }
    return h;
  }
  uint64_t replay_digest(State& s) {
    std::unique_ptr<M> m(fresh()); State t; t.F.p = P;
    for (auto& op : s.hist) { bool ok = apply(*m, t, op); if (ok) t.hist.push_back(op); }
    return digest(*m, t);
  }
  void check(int a, const char* what) {
    uint64_t got = digest(*slot[a].m, slot[a].s), exp = replay_digest(slot[a].s);
    if (got != exp) fail("copy-eq", std::string(what) + ": the observable contents differ from a matrix rebuilt by replaying the history that produced this value (" + std::to_string(slot[a].s.hist.size()) + " operations)");
    r.log(got); r.audited = true;
  }

  void run(Obs& obs) {
    for (size_t i = 0; i < p.ops.size(); ++i) {
      const sim::Op& op = p.ops[i]; r.begin_op((int)i, op);
      const std::string& nm = op.name;
      int a = (int)(op.arg(0) % K), b = (int)(op.arg(1) % K);
      if (nm == "m_ins" || nm == "m_add" || nm == "m_zero" || nm == "m_swap") {
        if (apply(*slot[a].m, slot[a].s, op)) { slot[a].s.hist.push_back(op); r.mutated = true; if (op.arg(3) % 3 == 0) for (int q = 0; q < K; ++q) check(q, "after a mutation of another slot"); } else r.skipped();
      }
      else if (nm == "m_copy_ctor") { if (LIST_BARCODE) r.count("probe.copy_with_list_barcode"); slot[b].m.reset(new M(*slot[a].m)); if (a != b) slot[b].s = slot[a].s; check(b, "copy-constructed matrix"); check(a, "source of a copy"); r.mutated = true; }
      else if (nm == "m_copy_assign") { if (LIST_BARCODE) r.count("probe.copy_with_list_barcode"); *slot[b].m = *slot[a].m; slot[b].s = slot[a].s; if (a == b) r.count("probe.self_assignment"); check(b, "copy-assigned matrix"); check(a, "source of a copy assignment"); r.mutated = true; }
      else if (nm == "m_move_ctor" || nm == "m_move_assign") {
        if (a == b) { r.skipped(); continue; }
        r.count("probe.matrix_move");
        if (nm == "m_move_ctor") slot[b].m.reset(new M(std::move(*slot[a].m))); else *slot[b].m = std::move(*slot[a].m);
        slot[b].s = slot[a].s; slot[a].s = State(); slot[a].s.F.p = P;
        check(b, "moved-to matrix");
        if (slot[a].m->get_number_of_columns() != 0) fail("moved-from", "a moved-from matrix reports " + std::to_string(slot[a].m->get_number_of_columns()) + " columns");
        r.mutated = true;  // the moved-from slot keeps being driven by the following ops: "empty and usable again"
      }
      else if (nm == "m_swap_obj") { if (a == b) { r.skipped(); continue; } swap(*slot[a].m, *slot[b].m); std::swap(slot[a].s, slot[b].s); check(a, "swapped matrix"); check(b, "swapped matrix"); r.mutated = true; }
      else if (nm == "m_destroy") { slot[a].m.reset(fresh()); slot[a].s = State(); slot[a].s.F.p = P; for (int q = 0; q < K; ++q) check(q, "after the destruction of another matrix"); r.mutated = true; }
      else if (nm == "m_audit") check(a, "matrix");
      else { r.skipped(); continue; }
      uint64_t h = 3; for (auto& s : slot) { h = sim::mix(h, s.s.hist.size()); h = sim::mix(h, s.s.F.hash()); } r.state(h);
    }
    for (auto& s : slot) obs.d.push_back(s.s.hist.size());
  }
};

template <class Opt> void exec_mat(const sim::Plan& p, sim::Run& r, Obs& o, const std::string& name) { Mat_exec<Opt> e(p, r, name); e.run(o); }

}  // namespace own
