// Configurations of the zz_hist engine (-DZZ_TU=<k>)
#include "zz_impl.h"
using namespace zzh; using Gudhi::persistence_matrix::Column_types;
#define PLAIN(ID, CT) namespace { void run_##ID(const sim::Plan& p, sim::Run& r, std::vector<Interval>& o) { exec_plain<ZOpt<Column_types::CT>>(p, r, o, "Zigzag_persistence/" #CT); } Register reg_##ID({"Zigzag_persistence/" #CT, run_##ID}); }
#define FILT(ID, CT, STOR) namespace { void run_##ID(const sim::Plan& p, sim::Run& r, std::vector<Interval>& o) { \
  if constexpr (STOR) exec_filtered<Gudhi::zigzag_persistence::Filtered_zigzag_persistence_with_storage<FZOpt<Column_types::CT>>, true>(p, r, o, "Filtered_zigzag_persistence_with_storage/" #CT); \
  else exec_filtered<Gudhi::zigzag_persistence::Filtered_zigzag_persistence<FZOpt<Column_types::CT>>, false>(p, r, o, "Filtered_zigzag_persistence/" #CT); } \
  Register reg_##ID({std::string(STOR ? "Filtered_zigzag_persistence_with_storage/" : "Filtered_zigzag_persistence/") + #CT, run_##ID}); }
#if ZZ_TU == 0
PLAIN(p0, NAIVE_VECTOR) PLAIN(p1, INTRUSIVE_LIST)
#elif ZZ_TU == 1
PLAIN(p2, SET) PLAIN(p3, VECTOR)
#elif ZZ_TU == 2
FILT(f0, NAIVE_VECTOR, true) FILT(f1, INTRUSIVE_SET, false)
#elif ZZ_TU == 3
PLAIN(p4, LIST) PLAIN(p5, UNORDERED_SET)
#elif ZZ_TU == 4
PLAIN(p6, INTRUSIVE_SET) PLAIN(p7, SMALL_VECTOR)
#endif
