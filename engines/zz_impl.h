// Templated executors of the zz_hist engine (C07).
#pragma once
#include "../sim/core.h"
#include "../models/zigzag.h"
#include <gudhi/zigzag_persistence.h>
#include <gudhi/filtered_zigzag_persistence.h>
#include <cmath>
#include <set>
#include <memory>

namespace zzh {

using zzmodel::Interval; using zzmodel::u64;
typedef void (*ExecFn)(const sim::Plan&, sim::Run&, std::vector<Interval>&);
struct Config { std::string name; ExecFn exec; };
std::vector<Config>& configs();
struct Register { Register(const Config& c) { configs().push_back(c); } };

inline std::string iv_str(const std::vector<Interval>& v) { std::string s; for (auto& i : v) s += "[" + std::to_string(i.dim) + "]" + std::to_string(i.b) + "-" + (i.d < 0 ? std::string("inf") : std::to_string(i.d)) + " "; return s; }

// shared interpretation of a plan: which cell each op designates, the sequence of complexes, the arrow numbers
struct Walk {
  std::vector<u64> Ks; u64 K = 0; std::map<int, int> arrow_of;  // pool index -> arrow number of its last insertion
  int arrows = 0;
  std::vector<int> insertable() const { auto& P = zzmodel::zpool(); std::vector<int> c; for (size_t i = 0; i < P.vmask.size(); ++i) if (!(K >> i & 1) && (P.bd[i] & ~K) == 0 && P.dim[i] <= 3) c.push_back((int)i); return c; }
  std::vector<int> removable() const { auto& P = zzmodel::zpool(); std::vector<int> c; for (size_t i = 0; i < P.vmask.size(); ++i) if (K >> i & 1) { bool cof = false; for (size_t j = 0; j < P.vmask.size(); ++j) if ((K >> j & 1) && j != i && (P.vmask[j] & P.vmask[i]) == P.vmask[i]) cof = true; if (!cof) c.push_back((int)i); } return c; }
};

template <class Opt>
void exec_plain(const sim::Plan& p, sim::Run& r, std::vector<Interval>& final_out, const std::string& cfg) {
  zzmodel::build_pool(); auto& P = zzmodel::zpool();
  typedef Gudhi::zigzag_persistence::Zigzag_persistence<Opt> ZP;
  std::vector<Interval> streamed; Walk w; int current_arrow = -1; std::string err;
  ZP zp([&](int dim, int b, int d) {
    // callback discipline: a finite interval is streamed at the arrow at which it dies
    if (d != current_arrow && err.empty()) err = "interval [" + std::to_string(dim) + "]" + std::to_string(b) + "-" + std::to_string(d) + " streamed during arrow " + std::to_string(current_arrow);
    streamed.push_back({dim, b, d});
  }, (unsigned)p.geti("prealloc", 0));
  auto fail = [&](const std::string& o, const std::string& d) { r.fail(o, "[" + cfg + "] " + d); };
  auto audit = [&]() {
    std::vector<Interval> got = streamed;
    zp.get_current_infinite_intervals([&](int dim, int b) { got.push_back({dim, b, -1}); });
    std::sort(got.begin(), got.end());
    for (size_t i = 1; i < got.size(); ++i) if (got[i] == got[i - 1] && got[i].d >= 0) { /* equal finite intervals may legitimately repeat (multiplicity) */ }
    auto exp = zzmodel::oracle(w.Ks);
    if (!(got == exp)) fail(exp.size() == got.size() ? "zz-finite" : "zz-open", "after " + std::to_string(w.arrows) + " arrows: intervals " + iv_str(got) + "decomposition " + iv_str(exp));
    r.audited = true; r.log(sim::hash_str(iv_str(got)));
    final_out = got;
  };
  for (size_t i = 0; i < p.ops.size(); ++i) {
    const sim::Op& op = p.ops[i]; r.begin_op((int)i, op);
    if (op.name == "audit") { if (!w.Ks.empty()) audit(); continue; }
    if (w.arrows >= (int)p.geti("max_arrows", 28)) { r.skipped(); continue; }
    current_arrow = w.arrows;
    if (op.name == "ins") {
      auto c = w.insertable(); if (c.empty()) { r.skipped(); continue; }
      int cell = c[op.arg(0) % c.size()];
      std::vector<int> b; for (size_t j = 0; j < P.vmask.size(); ++j) if (P.bd[cell] >> j & 1) b.push_back(w.arrow_of[(int)j]); std::sort(b.begin(), b.end());
      auto ret = zp.insert_cell(b, P.dim[cell]);
      if ((int)ret != w.arrows) fail("ret", "insert_cell returned arrow number " + std::to_string(ret) + " expected " + std::to_string(w.arrows));
      w.arrow_of[cell] = w.arrows; w.K |= 1ull << cell; r.mutated = true;
    } else if (op.name == "rem") {
      auto c = w.removable(); if (c.empty()) { r.skipped(); continue; }
      int cell = c[op.arg(0) % c.size()];
      auto ret = zp.remove_cell(w.arrow_of[cell]);
      if ((int)ret != w.arrows) fail("ret", "remove_cell returned arrow number " + std::to_string(ret) + " expected " + std::to_string(w.arrows));
      w.K &= ~(1ull << cell); r.mutated = true; r.count("probe.zz_removal");
    } else if (op.name == "id") { zp.apply_identity(); r.count("probe.zz_identity"); }
    else { r.skipped(); continue; }
    if (!err.empty()) fail("zz-callback", err);
    ++w.arrows; w.Ks.push_back(w.K);
    r.state(sim::mix(w.K, (uint64_t)w.arrows));
  }
}

// filtered front-ends: arbitrary cell keys, monotone value assignment, dimMax / shortest interval
template <class FZ, bool STORAGE>
void exec_filtered(const sim::Plan& p, sim::Run& r, std::vector<Interval>& final_out, const std::string& cfg) {
  zzmodel::build_pool(); auto& P = zzmodel::zpool();
  auto fail = [&](const std::string& o, const std::string& d) { r.fail(o, "[" + cfg + "] " + d); };
  Walk w; std::vector<double> value_of_arrow;
  const int dim_max = STORAGE ? (int)p.geti("dim_max", -1) : -1;
  const double shortest = 0.25 * (double)p.geti("shortest", 0);
  const long key_mul = p.geti("key_mul", 1), key_add = p.geti("key_add", 0);  // arbitrary (injective) cell keys
  const int dir = p.geti("direction", 1) >= 0 ? 1 : -1;
  double cur = 0.25 * (double)p.geti("value0", 0);
  struct SI { int dim; double b, d; };
  std::vector<SI> streamed_vals; int current_arrow = -1; std::string err;
  std::unique_ptr<FZ> fz;
  if constexpr (STORAGE) fz.reset(new FZ((unsigned)p.geti("prealloc", 0), dim_max));
  else fz.reset(new FZ([&](int dim, double b, double d) { streamed_vals.push_back({dim, b, d}); (void)current_arrow; }, (unsigned)p.geti("prealloc", 0)));
  auto key = [&](int cell) { return (int)(cell * key_mul + key_add); };
  std::set<int> skipped_cells;  // cells above dim_max are not inserted by the front-end (identity instead)
  auto audit = [&]() {
    auto exp = zzmodel::oracle(w.Ks);
    auto val = [&](int a) { return value_of_arrow[a]; };
    // expected value intervals: finite ones that are not of zero length and not of ignored dimension, then the open ones
    std::vector<std::tuple<int, double, double>> expv, gotv;
    const double INF = std::numeric_limits<double>::infinity();
    for (auto& iv : exp) {
      if (dim_max != -1 && iv.dim >= dim_max) continue;
      if (iv.d < 0) { expv.emplace_back(iv.dim, val(iv.b), INF); continue; }
      double b = val(iv.b), d = val(iv.d); if (b > d) std::swap(b, d);
      if (STORAGE ? (d - b > shortest) : (b != d)) expv.emplace_back(iv.dim, b, d);
    }
    if constexpr (STORAGE) {
      for (auto& bar : fz->get_persistence_diagram(shortest, true)) gotv.emplace_back((int)bar.dim, (double)bar.birth, (double)bar.death);
      // index diagram: the finite intervals in arrow numbers
      std::vector<Interval> goti; for (auto& bar : fz->get_index_persistence_diagram()) goti.push_back({(int)bar.dim, (int)bar.birth, (int)bar.death});
      std::sort(goti.begin(), goti.end());
      std::vector<Interval> expi; for (auto& iv : exp) if (iv.d >= 0 && !(dim_max != -1 && iv.dim >= dim_max)) expi.push_back(iv);
      if (!(goti == expi)) fail("zz-filtered", "get_index_persistence_diagram " + iv_str(goti) + "decomposition " + iv_str(expi));
      // documented for the birth / death indices returned by get_index_persistence_diagram (an identity arrow stores no value)
      std::set<int> idxs; for (auto& iv : expi) { idxs.insert(iv.b); idxs.insert(iv.d); }
      for (int a : idxs) { double g = fz->get_filtration_value_from_index(a); if (g != val(a)) fail("zz-filtered", "get_filtration_value_from_index(" + std::to_string(a) + ")=" + std::to_string(g) + " expected " + std::to_string(val(a))); }
    } else {
      for (auto& s : streamed_vals) { double b = s.b, d = s.d; if (b > d) std::swap(b, d); gotv.emplace_back(s.dim, b, d); }
      fz->get_current_infinite_intervals([&](int dim, double b) { gotv.emplace_back(dim, b, INF); });
    }
    std::sort(expv.begin(), expv.end()); std::sort(gotv.begin(), gotv.end());
    if (gotv != expv) {
      auto str = [](const std::vector<std::tuple<int, double, double>>& v) { std::string s; for (auto& t : v) s += "[" + std::to_string(std::get<0>(t)) + "]" + std::to_string(std::get<1>(t)) + "-" + std::to_string(std::get<2>(t)) + " "; return s; };
      fail("zz-filtered", "value intervals " + str(gotv) + "expected " + str(expv));
    }
    r.audited = true; r.log((uint64_t)gotv.size());
    final_out = exp;
  };
  for (size_t i = 0; i < p.ops.size(); ++i) {
    const sim::Op& op = p.ops[i]; r.begin_op((int)i, op);
    if (op.name == "audit") { if (!w.Ks.empty()) audit(); continue; }
    if (w.arrows >= (int)p.geti("max_arrows", 28)) { r.skipped(); continue; }
    current_arrow = w.arrows;
    double step = 0.25 * (double)(op.arg(1) % 3);  // plateaus (0) and jumps
    if (op.name == "ins") {
      auto c = w.insertable(); if (c.empty()) { r.skipped(); continue; }
      int cell = c[op.arg(0) % c.size()];
      cur += dir * step;
      std::vector<int> b; for (size_t j = 0; j < P.vmask.size(); ++j) if (P.bd[cell] >> j & 1) b.push_back(key((int)j));
      // faces above dim_max were never given to the matrix; a coface of such a cell is itself above dim_max, so every face is known
      auto ret = fz->insert_cell(key(cell), b, P.dim[cell], cur);
      if ((int)ret != w.arrows) fail("ret", "insert_cell returned " + std::to_string(ret) + " expected " + std::to_string(w.arrows));
      w.arrow_of[cell] = w.arrows; w.K |= 1ull << cell; r.mutated = true;
    } else if (op.name == "rem") {
      auto c = w.removable(); if (c.empty()) { r.skipped(); continue; }
      int cell = c[op.arg(0) % c.size()];
      cur += dir * step;
      auto ret = fz->remove_cell(key(cell), cur);
      if ((int)ret != w.arrows) fail("ret", "remove_cell returned " + std::to_string(ret) + " expected " + std::to_string(w.arrows));
      w.K &= ~(1ull << cell); r.mutated = true;
    } else if (op.name == "id") { fz->apply_identity(); }
    else { r.skipped(); continue; }
    value_of_arrow.push_back(cur);
    if (!err.empty()) fail("zz-callback", err);
    ++w.arrows; w.Ks.push_back(w.K);
    r.state(sim::mix(w.K, (uint64_t)w.arrows));
  }
}

template <Gudhi::persistence_matrix::Column_types ct> struct ZOpt : Gudhi::zigzag_persistence::Default_zigzag_options { static const Gudhi::persistence_matrix::Column_types column_type = ct; };
template <Gudhi::persistence_matrix::Column_types ct> struct FZOpt : Gudhi::zigzag_persistence::Default_filtered_zigzag_options { static const Gudhi::persistence_matrix::Column_types column_type = ct; };

}  // namespace zzh
